"""C08 — a TEBD step equals the ordered product of its Trotter gates and SWAPs."""
from __future__ import annotations

import copy
import itertools
import random
from collections import Counter

import numpy as np

from lib import Prop, coq_eval, coq_nat, coq_list, coq_opt
import wmodel
from wmodel import Driver, IdMap, snapshot
from props.c02 import gen_build
import util
from util import TTNS, TensorProduct

IMPORTS = ("From Coq Require Import List Arith ZArith. From PTN Require Import TTN.Store TTN.InvSem TEBD.Trotter. "
           "Import ListNotations.")
KNOWN_CONTR = "C08-reserved-contr-id"
CONTR = "contr"          # the temporary identifier hard-coded in tebd.py
TMP = "<tmp>"            # canonical name of the temporary identifier of the contracted node in observations


def canon_tmp(snap, raws, tmp):
    """rename the temporary identifier (a constant or a uuid) to its canonical name"""
    if tmp is None:
        return snap, raws
    r = lambda x: TMP if x == tmp else x      # noqa: E731
    nodes = [[r(n[0]), r(n[1]) if n[1] is not None else None, [r(c) for c in n[2]], n[3], n[4], r(n[5])] for n in snap["nodes"]]
    return ({"nodes": nodes, "tkeys": [r(k) for k in snap["tkeys"]], "root": r(snap["root"]),
             "tshapes": {r(k): v for k, v in snap["tshapes"].items()}}, {r(k): v for k, v in raws.items()})


# ---- independent numerics ---------------------------------------------------------------------------
def expm_indep(a):
    """matrix exponential by scaling and squaring of a Taylor series (no scipy, no library code);
    Hermitian input goes through an eigendecomposition instead"""
    a = np.asarray(a, dtype=complex)
    if a.shape[0] and np.allclose(a, a.conj().T, rtol=0, atol=1e-14 * max(1.0, float(np.max(np.abs(a))))):
        w, v = np.linalg.eigh(a)
        return (v * np.exp(w)) @ v.conj().T
    nrm = float(np.max(np.sum(np.abs(a), axis=0))) if a.size else 0.0
    s = 0
    while nrm / (2 ** s) > 0.25:
        s += 1
    b = a / (2 ** s)
    out = np.eye(a.shape[0], dtype=complex)
    term = np.eye(a.shape[0], dtype=complex)
    for k in range(1, 24):
        term = term @ b / k
        out = out + term
    for _ in range(s):
        out = out @ out
    return out


def expm_antiherm_arg(factor, dt, gen):
    """exp(-i * factor * dt * gen): eigendecomposition of gen when it is Hermitian, series otherwise"""
    gen = np.asarray(gen, dtype=complex)
    z = -1j * factor * dt
    if np.allclose(gen, gen.conj().T, rtol=0, atol=1e-14 * max(1.0, float(np.max(np.abs(gen))) if gen.size else 1.0)):
        w, v = np.linalg.eigh(gen)
        return (v * np.exp(z * w)) @ v.conj().T
    return expm_indep(z * gen)


def build_mat(entry):
    """deterministic matrix from a table entry [dim, kind, seed]"""
    d, kind, seed = entry
    r = np.random.RandomState(seed)
    if kind == "gen":
        return r.standard_normal((d, d)) + 1j * r.standard_normal((d, d))
    if kind == "real":
        return r.standard_normal((d, d))
    if kind == "herm":
        a = r.standard_normal((d, d)) + 1j * r.standard_normal((d, d))
        return a + a.conj().T
    if kind == "nil":
        a = np.triu(r.randint(-2, 3, size=(d, d)).astype(float), 1)
        return a
    if kind == "eye":
        return np.eye(d)           # an EXACT identity factor (A (x) 1 and 1 (x) A terms)
    if kind == "diag":
        return np.diag(r.randint(-2, 3, size=d).astype(float))   # diagonal (Z-type) generator: keeps a GHZ spectrum degenerate
    if kind == "tiny":
        # a generic generator of small magnitude (1e-3 .. 1e-6): the gate is close to, but not, the identity
        return (r.standard_normal((d, d)) + 1j * r.standard_normal((d, d))) * 10.0 ** (-3 - seed % 4)
    raise ValueError(kind)


def swap_perm(d):
    """dense permutation exchanging two d-level sites, as a (d, d, d, d) tensor (out, out, in, in)"""
    return np.eye(d * d).reshape(d, d, d, d).transpose(1, 0, 2, 3)


def apply_local(psi, axes, u):
    """apply the operator tensor u (outs..., ins...) to the axes `axes` of psi; outputs stay in place"""
    k = len(axes)
    res = np.tensordot(u, psi, axes=(list(range(k, 2 * k)), list(axes)))
    return np.moveaxis(res, list(range(k)), list(axes))


# ---- badly scaled states: the same kind of random tree state with the magnitude of every tensor spread over many orders of magnitude ----
SCALE_MODES = ["gauge", "tiny", "huge", "spread"]


def draw_scales(seed, mode, n):
    """one positive factor per node tensor (in build order). gauge: exponents in [-12, 12] that sum to (about) zero, the state has an
    ordinary norm but its magnitude sits in a few tensors (a legitimate gauge of a tree state); tiny / huge: every tensor
    10^-k / 10^k, k in 3..12 (an unnormalised state of very small / very large norm); spread: independent exponents in [-12, 12]"""
    r = random.Random(seed * 7919 + 13)
    if mode == "gauge":
        ex = [r.randint(-12, 12) for _ in range(n)]
        if n >= 2:
            rest = -sum(ex[:-1])
            ex[-1] = max(-12, min(12, rest))
            r.shuffle(ex)
    elif mode == "tiny":
        k = r.randint(3, 12)
        ex = [-k] * n
    elif mode == "huge":
        k = r.randint(3, 12)
        ex = [k] * n
    elif mode == "spread":
        ex = [r.randint(-12, 12) for _ in range(n)]
    else:
        raise ValueError(mode)
    return [10.0 ** e * r.uniform(1.0, 10.0) for e in ex]


class ScaledDriver(Driver):
    """the Layer-W driver with every freshly drawn node tensor multiplied by its scale factor (the recorded atom is the scaled tensor)"""

    def __init__(self, scales, **kw):
        super().__init__(**kw)
        self._scales = list(scales)

    def _rand(self, shape):
        x = super()._rand(shape)
        return x * (self._scales.pop(0) if self._scales else 1.0)


def rel_close(got, ref, rtol, floor=0.0):
    """|got - ref| <= rtol * max(floor, max|ref|) entrywise: a tolerance RELATIVE to the scale of the reference
    (floor = 0: purely relative; an exactly vanishing reference demands an exactly vanishing result)"""
    if got.shape != ref.shape:
        return False
    if not ref.size:
        return True
    scale = max(floor, float(np.max(np.abs(ref))))
    if not np.all(np.isfinite(got)):
        return False
    return bool(np.max(np.abs(got - ref)) <= rtol * scale)


# ---- driver configurations: final time, evaluation interval, measured operators (histories driven by the library's run()) ----
DRIVE_FRACS = [0.0, 0.0, 0.04, 0.3, 0.5, 0.75]      # final_time = dt * (nrun + frac): exact multiples and non-multiples of the step


def draw_drive(rng, nrun_choices=(1, 2, 3, 4, 5, 5, 6, 7)):
    """a configuration of the evolution driver: the TEBD object is built with final_time = dt * (nrun + frac) (frac = 0: an exact
    multiple of the step; otherwise NOT a multiple, below / above the library's documented round-up threshold 0.1), the steps are
    driven by run(evaluation_time=ev) with ev in {1, 'inf', 2 .. N + 1} (dividing and not dividing the number of steps, larger than it),
    with or without operators measured at the evaluation points"""
    nrun = rng.choice(nrun_choices)
    frac = rng.choice(DRIVE_FRACS)
    n = drive_steps(nrun, frac)
    r = rng.random()
    ev = 1 if r < 0.15 else "inf" if r < 0.3 else rng.randrange(2, n + 2)
    return {"nrun": nrun, "frac": frac, "ev": ev, "nops": rng.choice([0, 1, 2])}


def drive_steps(nrun, frac):
    """the number of steps a run up to dt * (nrun + frac) consists of: nrun steps reach dt * nrun; a remainder of less than a tenth of a
    step is dropped, a larger one costs one more (full) step — the documented rule of the driver (property C18), frac is never near 0.1"""
    return nrun if frac < 0.1 else nrun + 1


def dense_tree(t, ids):
    """independent dense contraction of a tree state by pairwise tensordot from the leaves up (no einsum over the whole network, so
    trees of a dozen nodes / bonds of dimension 6 stay cheap); axes = open legs of the nodes in the order `ids`, the several open
    legs of one node in node order — the same convention as util.dense_ttn"""
    def sub(nid):
        node = t.nodes[nid]
        x = np.asarray(t.tensors[nid])
        nvirt = (0 if node.is_root() else 1) + len(node.children)
        labels = ([("b", nid)] if not node.is_root() else []) + [("b", c) for c in node.children] + \
                 [("o", nid, k) for k in range(x.ndim - nvirt)]
        for c in node.children:
            y, yl = sub(c)
            x = np.tensordot(x, y, axes=([labels.index(("b", c))], [yl.index(("b", c))]))
            labels = [l for l in labels if l != ("b", c)] + [l for l in yl if l != ("b", c)]
        return x, labels
    x, labels = sub(t.root_id)
    want = [l for nid in ids for l in sorted(l for l in labels if l[0] == "o" and l[1] == nid)]
    assert len(want) == len(labels) == x.ndim
    return x.transpose([labels.index(l) for l in want])


# ---- truncation settings: the ways of switching a tolerance "off" / to its default ---------------------
_NINF = float("-inf")
# (rel_tol, total_tol); with a finite max_bond_dim every one of them means "truncate (essentially) by bond dimension only"
TOL_IDIOMS = [(_NINF, _NINF),      # both tolerances deactivated (the library's idiom), only max_bond_dim truncates
              (0.0, 0.0),          # tolerance 0: only exact zeros are discarded
              (1e-15, 1e-15),      # the dataclass defaults
              (_NINF, 0.0), (0.0, _NINF), (_NINF, 1e-15), (1e-15, _NINF)]


# ---- splitting specifications ------------------------------------------------------------------------
FACTORS = [1.0, 0.5, -1.3, 2.0, 0.0, -0.25, 0.7, 3.1, -2.2, 0.05 + 0.3j]


def realise_spec(spec):
    """the library objects for a specification: matrices, factors, TensorProducts, TrotterSplitting"""
    from pytreenet.time_evolution.trotter import TrotterSplitting, TrotterStep, SWAPlist
    mats = [build_mat(e) for e in spec["mats"]]
    tps = [TensorProduct({i: mats[m] for i, m in tp}) for tp in spec["tps"]]
    fac = lambda l: 1 if l == 0 else FACTORS[l]      # noqa: E731
    if spec["mode"] == "direct":
        steps = []
        for s in spec["steps"]:
            sb = None if s["before"] is None else SWAPlist([tuple(p) for p in s["before"]])
            sa = None if s["after"] is None else SWAPlist([tuple(p) for p in s["after"]])
            steps.append(TrotterStep(tps[s["tp"]], fac(s["f"]), sb, sa))
        return mats, tps, TrotterSplitting(steps)
    splitting = spec["splitting"]
    if splitting is not None:
        splitting = [x if isinstance(x, int) else (x[0], fac(x[1])) for x in splitting]
    conv = lambda sw: None if sw is None else [SWAPlist([tuple(p) for p in l]) for l in sw]      # noqa: E731
    return mats, tps, TrotterSplitting.from_lists(tps, splitting, conv(spec["sb"]), conv(spec["sa"]))


def observe_steps(splitting, mats):
    """what from_lists / the constructor built: per step (keys with matrix labels, factor label, swaps)"""
    out = []
    for st in splitting:
        op = []
        for k, v in st.operator.items():
            lab = [j for j, m in enumerate(mats) if m is v]
            op.append([k, lab[0] if lab else -1])
        f = st.factor
        flab = 0 if (isinstance(f, int) and f == 1) else ([j for j, x in enumerate(FACTORS) if j and x == f] or [-1])[0]
        out.append([op, flab, [list(p) for p in st.swaps_before], [list(p) for p in st.swaps_after]])
    return out


def spec_steps(spec):
    """the steps of a specification read from its text (independent of the library and of the model):
    list of (tp index, factor value, swaps before, swaps after); None if an index is out of range"""
    fac = lambda l: 1.0 if l == 0 else FACTORS[l]      # noqa: E731
    if spec["mode"] == "direct":
        return [(s["tp"], fac(s["f"]), s["before"] or [], s["after"] or []) for s in spec["steps"]]
    sp = spec["splitting"]
    if sp is None:
        sp = [[i, 0] for i in range(len(spec["tps"]))]
    out = []
    for x in sp:
        i, f = (x, 0) if isinstance(x, int) else x
        if i >= len(spec["tps"]):
            return None
        b = [] if spec["sb"] is None else (spec["sb"][i] if i < len(spec["sb"]) else None)
        a = [] if spec["sa"] is None else (spec["sa"][i] if i < len(spec["sa"]) else None)
        if a is None or b is None:
            return None
        out.append((i, fac(f), b, a))
    return out


def expected_gates(spec, dims):
    """the gate sequence the property text prescribes: ("swap", (a, b), d) / ("exp", sites, dense
    operator tensor with axes (out sites..., in sites...) in the site order `sites`)"""
    st = spec_steps(spec)
    if st is None:
        return None
    mats = [build_mat(e) for e in spec["mats"]]
    out = []
    for i, f, b, a in st:
        for p in b:
            out.append(("swap", tuple(p), dims.get(p[0])))
        tp = spec["tps"][i]
        sites = sorted(k for k, _ in tp)
        gen = np.ones((1, 1))
        for s in sites:
            gen = np.kron(gen, mats[dict(tp)[s]])
        u = expm_antiherm_arg(f, spec["dt"], gen)
        out.append(("exp", tuple(sites), u, [dims.get(s) for s in sites]))
        for p in a:
            out.append(("swap", tuple(p), dims.get(p[0])))
    return out


def gen_spec(rng, site_dims, pairs, nterms, allow3=False, from_lists_p=0.4, swap_pairs=None, mats_kinds=("gen", "gen", "real", "herm", "nil")):
    """random splitting on the sites `site_dims` (id -> dim); two-site terms on `pairs` in either order"""
    sites = list(site_dims)
    mats = []

    def mat(d, kind=None):
        mats.append([d, kind or rng.choice(mats_kinds), rng.randrange(10 ** 6)])
        return len(mats) - 1
    tps = []
    for _ in range(nterms):
        r = rng.random()
        if pairs and r < 0.6:
            p = list(rng.choice(pairs))
            if rng.random() < 0.5:
                p.reverse()
            # a third of the two-site terms carry an exact identity on the first or on the second key
            eye_pos = rng.choice([0, 1]) if rng.random() < 0.34 else None
            tps.append([[p[0], mat(site_dims[p[0]], "eye" if eye_pos == 0 else None)],
                        [p[1], mat(site_dims[p[1]], "eye" if eye_pos == 1 else None)]])
        elif allow3 and len(sites) >= 3 and r < 0.7:
            tr = rng.sample(sites, 3)
            eye_pos = rng.choice([0, 1, 2]) if rng.random() < 0.34 else None
            tps.append([[x, mat(site_dims[x], "eye" if j == eye_pos else None)] for j, x in enumerate(tr)])
        else:
            s = rng.choice(sites)
            tps.append([[s, mat(site_dims[s])]])
    swap_pairs = swap_pairs if swap_pairs is not None else [p for p in pairs if site_dims[p[0]] == site_dims[p[1]]]

    def swaps():
        if not swap_pairs or rng.random() < 0.5:
            return []
        out = []
        for _ in range(rng.choice([1, 1, 2])):
            p = list(rng.choice(swap_pairs))
            if rng.random() < 0.5:
                p.reverse()
            out.append(p)
        return out
    spec = {"mats": mats, "tps": tps, "dt": rng.choice([0.1, 0.05, 0.3, 1.0])}
    if rng.random() < from_lists_p:
        spec["mode"] = "from_lists"
        r = rng.random()
        if r < 0.3:
            spec["splitting"] = None
        else:
            n = rng.randrange(1, len(tps) + 3)
            spec["splitting"] = [(lambda i: i if rng.random() < 0.3 else [i, rng.randrange(0, len(FACTORS))])(rng.randrange(len(tps)))
                                 for _ in range(n)]
        spec["sb"] = None if rng.random() < 0.4 else [swaps() for _ in tps]
        spec["sa"] = None if rng.random() < 0.4 else [swaps() for _ in tps]
    else:
        spec["mode"] = "direct"
        order = list(range(len(tps)))
        rng.shuffle(order)
        if rng.random() < 0.3 and order:
            order.append(rng.choice(order))
        spec["steps"] = [{"tp": i, "f": rng.randrange(0, len(FACTORS)),
                          "before": (None if rng.random() < 0.2 else swaps()),
                          "after": (None if rng.random() < 0.2 else swaps())} for i in order]
    return spec


# ---- Coq printing ------------------------------------------------------------------------------------
def coq_pairs(l, idm):
    return coq_list([f"({coq_nat(idm(a))}, {coq_nat(idm(b))})" for a, b in l])


def coq_tp(tp, idm):
    return coq_list([f"({coq_nat(idm(i))}, {coq_nat(m)})" for i, m in tp])


def coq_steps_expr(spec, idm):
    tps = coq_list([coq_tp(tp, idm) for tp in spec["tps"]])
    if spec["mode"] == "direct":
        items = []
        for s in spec["steps"]:
            items.append(f"(@Build_tstep nat nat {coq_tp(spec['tps'][s['tp']], idm)} {coq_nat(s['f'])} "
                         f"{coq_pairs(s['before'] or [], idm)} {coq_pairs(s['after'] or [], idm)})")
        return "(Some " + coq_list(items) + ")"
    sp = spec["splitting"]
    spc = "None" if sp is None else "(Some " + coq_list(
        [(f"(@SIdx nat {coq_nat(x)})" if isinstance(x, int) else f"(@SPair nat {coq_nat(x[0])} {coq_nat(x[1])})") for x in sp]) + ")"
    sw = lambda s: "None" if s is None else "(Some " + coq_list([coq_pairs(l, idm) for l in s]) + ")"      # noqa: E731
    return f"(@from_lists nat nat 0%nat {tps} {spc} {sw(spec['sb'])} {sw(spec['sa'])})"


def coq_mdim(spec):
    return "(fun m : nat => nth m " + coq_list([e[0] for e in spec["mats"]], coq_nat) + " 0%nat)"


def coq_dimsrc(const, ttn_dims, idm):
    t = "None" if ttn_dims is None else "(Some " + coq_list([f"({coq_nat(idm(k))}, {coq_nat(v)})" for k, v in ttn_dims.items()]) + ")"
    return f"{{| d_const := {coq_opt(const, coq_nat)}; d_ttn := {t} |}}"


def gates_from_model(v, idm):
    """parsed `map gate_obs gs` -> python dicts"""
    out = []
    for (kc, ids, shape, kron, fac, gdim, axes) in v:
        out.append({"kind": "exp" if kc == 0 else "swap", "ids": [idm.r[i] for i in ids], "shape": list(shape), "kron": list(kron),
                    "f": (fac[0] if fac else None), "dim": gdim, "axes": [(idm.r[i], bool(o)) for i, o in axes]})
    return out


def classify_tensor(t):
    """'swap' iff the tensor is exactly the 0/1 exchange permutation of two equal sites"""
    if t.ndim == 4 and t.shape[0] == t.shape[1] == t.shape[2] == t.shape[3] and np.array_equal(t, swap_perm(t.shape[0])):
        return "swap"
    return "exp"


def axis_roles(t, ids, sites, ref):
    """all labellings (identifier, is_output) of the axes of t under which t equals the reference
    operator `ref` whose axes are (out sites..., in sites...) in the order `sites`"""
    k = len(sites)
    canon = [(s, True) for s in sites] + [(s, False) for s in sites]
    found = []
    for pi in itertools.permutations(range(2 * k)):
        # axis pi[j] of t plays canonical role j
        if tuple(t.shape[p] for p in pi) != ref.shape:
            continue
        if np.allclose(t.transpose(pi), ref, rtol=1e-9, atol=1e-9 * max(1.0, float(np.max(np.abs(ref))))):
            lab = [None] * (2 * k)
            for j, p in enumerate(pi):
                lab[p] = canon[j]
            if lab not in found:
                found.append(lab)
    return found


def model_gate_tensor(g, spec):
    """the tensor a model gate descriptor stands for (independent exponential)"""
    if g["kind"] == "swap":
        return swap_perm(g["dim"]).astype(complex)
    mats = [build_mat(e) for e in spec["mats"]]
    gen = np.ones((1, 1))
    for m in g["kron"]:
        gen = np.kron(gen, mats[m])
    f = 1.0 if g["f"] == 0 else FACTORS[g["f"]]
    return expm_antiherm_arg(f, spec["dt"], gen).reshape(g["shape"])

# ---- histories on ONE TEBD object over states the caller wrote down array by array (kind "hist", oracle only) ----------------
HIST_FIELDS = ["max_bond_dim", "rel_tol", "total_tol", "renorm", "sum_trunc", "sum_renorm"]
HIST_NAMES = ["n{}", "site1{}", "q", "{}"]      # identifier spellings: n0.., site10.., a prefix chain q, qq, qqq, .., bare digits


def hist_setting(rng, kind):
    """a truncation setting [max_bond_dim, rel_tol, total_tol, renorm, sum_trunc, sum_renorm]; kind 'off': truncation disabled
    (max_bond_dim inf, or a finite bound far above every possible rank, both tolerances deactivated, value mode, no renormalisation), 'cap': a small max_bond_dim with one
    of the tolerance idioms of TOL_IDIOMS, 'rand': small max_bond_dim and sizeable tolerances, 'default': the TEBD default (None)"""
    if kind == "default":
        return None
    if kind == "off":
        # renorm stays off: rescaling the kept singular values changes the state even when nothing is discarded
        # and value mode: in sum mode the tolerance is squared, total_tol = -inf keeps ONE value (modelled and proved in C10)
        return [float("inf") if rng.random() < 0.75 else 10 ** 6, _NINF, _NINF, False, False, rng.random() < 0.5]
    if kind == "cap":
        rel, tot = TOL_IDIOMS[rng.choice([0, 0] + list(range(len(TOL_IDIOMS))))]
        return [rng.choice([1, 1, 2, 2, 3]), rel, tot, rng.random() < 0.3, rng.random() < 0.2, rng.random() < 0.5]
    return [rng.choice([1, 2, 3, 4]), rng.choice([_NINF, 1e-12, 1e-3, 0.2]), rng.choice([_NINF, 1e-12, 1e-6, 0.3]),
            rng.random() < 0.3, rng.random() < 0.5, rng.random() < 0.5]


def hist_exact(setting):
    """truncation disabled: no bound on the bond (inf or far above every rank of the small members) and both tolerances deactivated"""
    return setting is not None and setting[0] >= 10 ** 6 and setting[1] == _NINF and setting[2] == _NINF and not setting[3] and not setting[4]


def hist_cap(setting):
    """the configured maximum in force (the dataclass default when the TEBD object was built without parameters)"""
    return 100 if setting is None else setting[0]


def dense_arrays(parents, tens):
    """dense state of a tree written down as plain arrays with legs (parent, children in index order, physical): pairwise
    tensordot from the leaves up, axes = the physical legs in node index order (numpy only, no library object involved)"""
    n = len(parents)
    ch = [[c for c in range(n) if parents[c] == i] for i in range(n)]

    def sub(i):
        x = np.asarray(tens[i]).astype(complex)
        labels = ([("b", i)] if i else []) + [("b", c) for c in ch[i]] + [("o", i)]
        for c in ch[i]:
            y, yl = sub(c)
            x = np.tensordot(x, y, axes=([labels.index(("b", c))], [yl.index(("b", c))]))
            labels = [l for l in labels if l != ("b", c)] + [l for l in yl if l != ("b", c)]
        return x, labels
    x, labels = sub(0)
    return x.transpose([labels.index(("o", i)) for i in range(n)])


class C08(Prop):
    id = "C08"
    title = "TEBD step = ordered product of Trotter gates and SWAPs"
    design_ref = "DESIGN.md section 5 / C08"
    rule = ("three case families: (split) random Trotter splittings on 2-5 sites of mixed dimension 1-3 (single-, two- and three-site terms, "
            "keys in either order, a third of the multi-site terms with an exact identity (np.eye) on one position, 10 factors incl. 0, negative and complex, SWAP lists before/after, direct constructor or from_lists with "
            "int/pair/default splittings, `dim` or reference-ttn dimension source) -> gate sequence; (tebd) random trees of 2-6 nodes built with "
            "shuffled legs (some bystander nodes with 0 or 2 open legs), nearest-neighbour splittings with generic non-Hermitian / real / Hermitian / "
            "integer-nilpotent generators, 1-3 steps, truncation off or random (value or sum mode, max_bond_dim 1-4 that binds, tiny to large tolerances, renorm / sum_renorm on and off), "
            "plus a stratified bond-dimension-only family: max_bond_dim 1-3 below the exact rank (all dimensions >= 2) with every way of switching the tolerances off or to "
            "their default — (rel_tol, total_tol) in {(-inf,-inf) twice as often, (0,0), (1e-15,1e-15), (-inf,0), (0,-inf), (-inf,1e-15), (1e-15,-inf)}, value mode (80%) and sum mode, "
            "the bond left by every single two-site gate and every bond after every step judged against max_bond_dim; "
            "plus a badly-scaled family (stratified over gauge / tiny / huge / spread): the same random tree states, trees of 1-6 nodes (single-node trees included), with every node "
            "tensor multiplied by its own factor m*10^e — gauge: e in [-12,12] summing to about 0 (ordinary norm, magnitude concentrated in a few tensors), tiny / huge: every tensor "
            "10^-k / 10^k with k in 3..12 (norm down to ~1e-70 / up to ~1e70), spread: independent e in [-12,12] — generators additionally of magnitude 1e-3..1e-6, 7 of 8 with truncation "
            "disabled and the state judged with a tolerance RELATIVE to the largest amplitude of the dense reference (1e-8, no floor at one; model tie and SVD contract relative to the "
            "tensor's own magnitude, 1e-9), 1 of 8 with a bond-dimension-only truncation judged by the bond bound; the magnitude of the pair tensor handed to the SVD kernel is counted "
            "per decade class (scale:pair-tensor ...); "
            "plus a driver-configuration family (draw_drive): the TEBD object built with final_time = dt*(n+frac), n in 1..7 and frac in {0, 0.04, 0.3, 0.5, 0.75} "
            "(exact multiples of the configured step and non-multiples on both sides of the driver's round-up threshold), dt in {0.01 .. 0.3}, every gate of TEBD.exponents "
            "judged against exp(-i f dt A(x)B) with the CONFIGURED dt, and the history 'all steps driven by run(evaluation_time)' on a third instance with "
            "evaluation_time 1 / 'inf' / 2..N+1 (dividing, not dividing and exceeding the number of steps N; counted per class run:eval=...), 0-2 single-site "
            "operators measured at the evaluation points (list or dict; only on trees whose nodes all have one open leg), the final state compared with "
            "(ordered product of the dense gates)^N psi0, N = n for frac < 0.1 and n+1 otherwise (truncation off; 1 of 5 with truncation: bond bound after the run), "
            "structure and caller's state as for single steps; plus a few LARGE members with the same driver configurations, oracle only (no model tie): trees of 8-14 "
            "nodes (dimensions 2-3, own pairwise dense contraction), trees of 3-5 nodes with every bond and physical dimension in 4..7 (pair tensors of several "
            "thousand entries, two-site generators up to 49x49), and runs of 9-21 steps; observed after every sub-operation "
            "of every gate; (hist, oracle only) histories on ONE TEBD object over a state the caller wrote down array by array: star / chain / random trees of 2-6 nodes "
            "(uniform or mixed dimensions 1-3, identifiers n0.. / site10.. / the prefix chain q, qq, qqq / bare digits), nodes of equal shape given ONE ndarray object "
            "(all / some / none; counted hist:arrays shared=...), complex128 (4 of 5) or float64, one in five read through ttns.tensors before the construction; splittings "
            "of 2-6 terms with half of the single-site generators exactly diagonal (on-site fields) in mixed / fields-first / fields-last layouts; the constructor's truncation "
            "setting (disabled: max_bond_dim inf or 10^6 with both tolerances -inf, value mode; a cap 1-3 with every tolerance idiom; random tolerances; the default None) followed by "
            "1-3 changes — a new SVDParameters assigned to tebd.svd_parameters, or the object in force edited in place through the caller's reference / through the attribute "
            "(with or without check_truncation_parameters), one in four after reset_to_initial_state — 1-2 steps per phase (counted per class hist:switch off|trunc->off|trunc by ...); "
            "every step of a phase with truncation disabled = ordered product of the dense gates applied to the state before it (the first one from the caller's arrays by numpy "
            "alone, afterwards from the state the previous step left; tolerance 1e-8 relative to the largest amplitude the reference passes through within the step), every step of a truncating phase: each bond a two-site gate acts on within [1, the maximum configured "
            "for THAT phase]; tebd.svd_parameters reports the configured values; structure kept, caller's arrays equal to copies taken before; (swapmat) swap_gate(d), d = 0..6; plus a malformed stream (non-neighbours, unequal SWAP dimensions, three-site terms, "
            "unknown identifiers, wrong operator size, out-of-range from_lists indices) that both sides must reject at the same place. "
            "non-trivial = a tebd case with a two-site gate or a split case with at least two gates")
    clauses = [
        ("F", "exponentiate_splitting = concatenation over the steps of swaps_before ++ [exp] ++ swaps_after; identifiers of every gate in "
              "TensorProduct key order (not the `order` argument), factors in step order, axes (outputs then inputs) in identifier order; "
              "from_lists defaults and index rule (C08_exponents_order, C08_gate_axes_layout, C08_into_operator_*, C08_from_lists_*)"),
        ("F", "swap_gate, every dimension: entry ((a,b),(c,e)) = [a=e and b=c]; the loop-built matrix is the involutive permutation sigma; "
              "SWAP psi[a,b] = psi[b,a]; SWAP.SWAP = 1 (C08_swap_*)"),
        ("F", "two-site gate, either orientation: the leg specifications recorded by legs_before_combination partition the legs of the node contract_nodes "
              "stores; absorb attaches the gate's inputs to the open wires in order and leaves the outputs in place; split_nodes gives both nodes back "
              "under their identifiers with their parent and children (as sets), root unchanged; one step = ordered composition of its gates "
              "(C08_lbc_names, C08_contract_specs_partition, C08_absorb_open_spec, C08_split_nodes_structure, C08_split_nodes_neighbours, C08_two_site_gate_restores, C08_tebd_step_*)"),
        ("F", "truncation: with max_bond_dim = m the new bond has between 1 and m values (C08_bond_bounded, from the C10 model of truncate_singular_values)"),
        ("F", "value level (TEBD/GateValue.v, any commutative semiring, any atom table, every store satisfying the extended invariant wfsb of C02): "
              "absorb_into_open_legs keeps wfsb and CHANGES the value of the network in the stated way — net_value after = SUM over the indices j of the "
              "node's old open wires of tbl ga (indices of the new open wires ++ j) * net_value before at rho[old wires := j], ga the fresh operator atom "
              "(outputs first, then inputs); hence the single-site gate law; wire bookkeeping of every gate without any contract: the gate's output wires are "
              "the next fresh wires and become the open wires of its node(s), node1's first, every other node keeps its open wires, and the action list of "
              "a step (atom, output wires, input wires per gate, list order) equals track_acts computed from the initial wire state and the identifier "
              "lists alone (C08_absorb_value, C08_absorb_preserves_wfsb, C08_single_site_gate_value, C08_single_site_gate_value_one_leg, "
              "first conjuncts of C08_two_site_gate_value / C08_tebd_step_value)"),
        ("O", "under the kernel contract def_holds of every split_node_svd call (the two recorded factors contracted over the new bond give back the tensor "
              "the kernel received; truncation disabled; a premise, never an axiom): contract_nodes / absorb / split on two neighbouring nodes, either "
              "orientation, any number of open legs, acts on the value of the network as the gate atom through the open wires of node1 ++ node2 "
              "(new state[x, y] = SUM_{ja, jb} G[x, y, ja, jb] * old state[ja, jb]); a gate whose table is the swap tensor exchanges the two site indices; "
              "the value after a whole step (several steps = the list repeated) is the fold_left of the gate actions in list order applied to the value "
              "before (C08_two_site_gate_value, C08_two_site_gate_value_one_leg, C08_swap_gate_value, C08_tebd_step_value; example over Z with a proved "
              "contract: C08_example_value_*). The contract is validated numerically on every untruncated two-site gate of every explored instance "
              "(captured SVD factors contracted over the bond against the model diagram of the temporary node, tolerance 1e-9) and again through the dense oracle"),
        ("I", "per explored instance (vm_compute on the model state, model tied exactly to the code after every sub-operation): pair_okb — the hypotheses of "
              "C08_two_site_gate_restores, proved sound — before every two-site gate, structure_kept (every node keeps parent and child set, root kept) after "
              "the step, and wfsb (the hypothesis of the value theorems) on the initial model store"),
        ("O", "expm and the SVD kernel are opaque atoms of the diagram; gate values are validated against an independent exponential, SVD factors by the "
              "direct contract check above and through the dense oracle"),
        ("V", "new state vector = ordered product of dense unitaries applied to the old one (run_one_time_step on its own instance) — the end-to-end numerical "
              "counterpart of C08_tebd_step_value, which is a theorem about the model's diagrams with opaque atom tables, not about floating-point arrays; "
              "bond dimensions within [1, max_bond_dim] under truncation (after every two-site gate and after every step, for random tolerances and for every "
              "tolerance-off idiom of TOL_IDIOMS combined with a binding max_bond_dim); for states whose tensors are scaled over 24 orders of magnitude (uneven gauge, tiny and "
              "huge norm) the comparison is relative to the largest amplitude of the reference (1e-8), so a tiny-norm state is judged as strictly as a normalised one; "
              "caller's state untouched; for states whose nodes share one caller array, and on one TEBD object whose svd_parameters are re-assigned or edited in place between "
              "steps (each phase judged by the setting in force: exact product when disabled, bond bound of that phase otherwise); every factor built with the configured dt for final times that are not multiples of it; the state left by "
              "run(evaluation_time) over N steps = (ordered product)^N psi0 for every evaluation interval, with operators measured in between: dense numpy oracle"),
    ]
    trusted_base = ["scipy.linalg.expm (validated against an independent series / eigendecomposition exponential, tolerance 1e-9 relative)",
                    "LAPACK SVD: U . (S Vh) contracts back to the input when nothing is truncated = the premise def_holds / tebd_contracts of "
                    "C08_two_site_gate_value, C08_swap_gate_value, C08_tebd_step_value (validated on every untruncated two-site gate by contracting the captured "
                    "factors over the new bond against the model diagram, tolerance 1e-9, and through the dense oracle); with truncation enabled the value theorems do not apply",
                    "atom tables: the value theorems hold for every table tbl; that the table of a gate atom is exp(-i f dt A) / the swap tensor and that of a node atom "
                    "the initial tensor is the tie (every stored tensor is compared with the einsum of its model diagram over the captured atom values)",
                    "int(i / d) in swap_gate is a float division; equal to floor division for i < 2^53 (the model uses floor division)",
                    "NumPy kron/reshape/tensordot/transpose implement the diagram operations (exercised by comparing every stored tensor with the model diagram)"]
    assumptions = ["the number of steps of a run up to final_time = dt*(n+frac) is n for frac < 0.1 and n+1 otherwise (the driver's documented rule, property C18; "
                   "frac is drawn away from the threshold)",
                   "every operator of a tensor product has the physical dimension of its site (a 2-site product with the two dimensions exchanged is silently reshaped by the code and by the model alike)",
                   "SWAP lists are SWAPlist instances (a plain list of tuples, allowed by the type hints, fails in the code with AttributeError)",
                   f"no node is called '{CONTR}' (see known finding {KNOWN_CONTR})"]

    # ------------------------------------------------------------------------------------------------
    def generate(self, ctx, stream, budget_scale=1):
        rng = ctx.rng(stream)
        cases = []
        if stream == "main":
            for d in range(0, 7):
                cases.append({"kind": "swapmat", "d": d})
        nsplit = ctx.scale(50, 400) * budget_scale
        ntebd = ctx.scale(60, 600) * budget_scale
        for j in range(nsplit):
            cases.append({"kind": "split", "seed": rng.randrange(10 ** 9), "malformed": j % 6 == 5})
        for j in range(ntebd):
            cases.append({"kind": "tebd", "seed": rng.randrange(10 ** 9), "nnodes": rng.choice([2, 2, 3, 3, 3, 4, 4, 5, 6]),
                          "nsteps": rng.choice([1, 1, 2, 3]), "trunc": j % 3 == 2, "malformed": j % 8 == 7,
                          "ints": j % 5 == 0})
        for j in range(ctx.scale(8, 60) * budget_scale):
            cases.append({"kind": "tebd", "seed": rng.randrange(10 ** 9), "nnodes": rng.choice([2, 3, 4, 4, 5]), "nsteps": rng.choice([1, 2]),
                          "trunc": True, "malformed": False, "ints": False, "ghz": True})
        # bond-dimension-only truncation: every tolerance idiom of TOL_IDIOMS (stratified, the all-deactivated one twice as often)
        # with a small max_bond_dim on states / gates whose exact rank is above it
        sched = [0] + list(range(len(TOL_IDIOMS)))
        for j in range(ctx.scale(10, 120) * budget_scale):
            cases.append({"kind": "tebd", "seed": rng.randrange(10 ** 9), "nnodes": rng.choice([2, 3, 3, 4, 4, 5]), "nsteps": rng.choice([1, 2, 2]),
                          "trunc": True, "malformed": False, "ints": False, "tol": sched[j % len(sched)]})
        # badly scaled states (SCALE_MODES, stratified): uneven gauge / tiny norm / huge norm / independent spread of the tensor
        # magnitudes over 24 orders of magnitude, single-node trees included; three quarters with truncation disabled (state judged
        # RELATIVE to the scale of the dense reference), one quarter with a bond-dimension-only truncation (bond bound)
        for j in range(ctx.scale(12, 160) * budget_scale):
            trunc = j % 8 == 7
            c = {"kind": "tebd", "seed": rng.randrange(10 ** 9), "nnodes": rng.choice([1, 2, 2, 3, 3, 4, 4, 5, 6]), "nsteps": rng.choice([1, 2, 2]),
                 "trunc": trunc, "malformed": False, "ints": False, "scale": SCALE_MODES[j % len(SCALE_MODES)]}
            if trunc:
                c["tol"] = sched[(j // 8) % len(sched)]
            cases.append(c)
        # driver configurations (draw_drive): final_time an exact multiple / NOT a multiple of the configured step, the steps driven by
        # run(evaluation_time) with intervals that divide / do not divide / exceed the number of steps, 'inf', with and without measured
        # operators; the gate-by-gate observation and the model tie are as in the ordinary family
        for j in range(ctx.scale(16, 160) * budget_scale):
            cases.append({"kind": "tebd", "seed": rng.randrange(10 ** 9), "nnodes": rng.choice([2, 2, 3, 3, 4, 4, 5]), "nsteps": rng.choice([1, 1, 2]),
                          "trunc": j % 5 == 4, "malformed": False, "ints": j % 7 == 0, "drive": draw_drive(rng)})
        # LARGE members (oracle only, no model tie): many nodes (8-14, dimensions 2-3), large tensors / high ranks (3-5 nodes, every
        # dimension 4-7), many steps; all with a driver configuration, most with truncation disabled
        for j in range(ctx.scale(4, 30) * budget_scale):
            big = ["nodes", "dims", "nodes", "dims", "steps"][j % 5]
            cases.append({"kind": "tebd", "seed": rng.randrange(10 ** 9),
                          "nnodes": rng.choice([8, 9, 10, 12, 14]) if big == "nodes" else rng.choice([3, 4, 5]) if big == "dims" else rng.choice([2, 3, 4]),
                          "nsteps": 1, "trunc": j % 6 == 5, "malformed": False, "ints": False, "large": big,
                          "drive": draw_drive(rng, (9, 12, 16, 20) if big == "steps" else (1, 2, 3, 4, 5))})
        # histories on ONE TEBD object (oracle only): the state written down by the caller array by array (often one array object behind
        # several nodes, usually not read before the construction), splittings with exactly diagonal single-site factors among the others,
        # and the truncation setting of the object changed between the steps (re-assigned / edited in place / after a reset)
        for j in range(ctx.scale(150, 1200) * budget_scale):
            cases.append({"kind": "hist", "seed": rng.randrange(10 ** 9)})
        return cases

    def nontrivial(self, case):
        return case["kind"] in ("tebd", "split", "hist")

    def distribution(self, cases):
        c = Counter()
        for x in cases:
            c[x["kind"] + (":malformed" if x.get("malformed") else "")] += 1
            if x["kind"] == "tebd":
                c[f"nodes={x['nnodes']}"] += 1
                c[f"steps={x['nsteps']}"] += 1
                c["trunc" if x["trunc"] else "notrunc"] += 1
                if x.get("tol") is not None:
                    c["trunc:bond-only-family"] += 1
                if x.get("scale"):
                    c[f"scale:{x['scale']}" + (":trunc" if x["trunc"] else ":notrunc")] += 1
                if x.get("drive"):
                    c["drive-family" + (":large" if x.get("large") else "")] += 1
        c.update(getattr(self, "_stats", {}))
        return dict(c)

    # ------------------------------------------------------------------------------------------------
    # split cases
    def _split_case(self, case):
        rng = random.Random(case["seed"])
        n = rng.choice([2, 3, 3, 4, 5])
        use_ttn = rng.random() < 0.7
        const = None
        if not use_ttn or rng.random() < 0.15:
            const = rng.choice([1, 2, 2, 3])
        parents = util.random_parents(rng, n)
        if use_ttn:
            phys = [rng.choice([1, 2, 2, 3, 3]) for _ in range(n)] if const is None else [const] * n
        else:
            phys = [const] * n
        ttn = util.build_ttns(rng, parents, phys=phys, bond=rng.choice([1, 2]))
        ids = [f"n{i}" for i in range(n)]
        site_dims = {f"n{i}": phys[i] for i in range(n)}
        pairs = [(f"n{p}", f"n{i}") for i, p in enumerate(parents) if p is not None]
        allpairs = pairs + [tuple(rng.sample(ids, 2)) for _ in range(2)]
        spec = gen_spec(rng, site_dims, allpairs, rng.randrange(1, 5), allow3=True)
        mal = None
        if case.get("malformed"):
            mal = rng.choice(["unknown_id", "wrong_dim", "index", "nodims", "dim0", "empty_tp"])
            if mal == "unknown_id":
                tp = rng.choice(spec["tps"])
                tp[rng.randrange(len(tp))][0] = "ghost"
                if const is not None and rng.random() < 0.5:
                    sw = [["ghost", ids[0]]]
                    if spec["mode"] == "direct":
                        spec["steps"][0]["before"] = sw
            elif mal == "wrong_dim":
                tp = rng.choice(spec["tps"])
                e = spec["mats"][tp[0][1]]
                e[0] = e[0] + 1
            elif mal == "index":
                spec["mode"] = "from_lists"
                spec["splitting"] = [0, [len(spec["tps"]) + rng.randrange(0, 2), 1]]
                spec["sb"] = None
                spec["sa"] = [[] for _ in range(max(0, len(spec["tps"]) - 1))] if rng.random() < 0.5 else None
            elif mal == "nodims":
                use_ttn, const = False, None
            elif mal == "dim0":
                const = 0
            elif mal == "empty_tp":
                spec["tps"].append([])
                if spec["mode"] == "direct":
                    spec["steps"].append({"tp": len(spec["tps"]) - 1, "f": 1, "before": [], "after": []})
                else:
                    spec["splitting"] = (spec["splitting"] or []) + [len(spec["tps"]) - 1]
                    if spec["sb"] is not None:
                        spec["sb"].append([])
                    if spec["sa"] is not None:
                        spec["sa"].append([])
        ob = {"spec": spec, "const": const, "ttn_dims": ({k: int(ttn.nodes[k].open_dimension()) for k in ttn.nodes} if use_ttn else None),
              "malformed_kind": mal}
        dims = dict(ob["ttn_dims"]) if use_ttn else {}
        ob["dims_for_oracle"] = {"const": const, "ttn": ob["ttn_dims"]}
        try:
            mats, tps, splitting = realise_spec(spec)
            ob["steps"] = observe_steps(splitting, mats)
        except Exception as e:  # noqa
            ob["build_error"] = f"{type(e).__name__}: {e}"
            return ob
        # into_operator with an explicit order: factors multiplied in `order`, identifiers in key order
        io = []
        for tp_spec, tp in zip(spec["tps"], tps):
            if len(tp_spec) >= 2:
                order = [k for k, _ in tp_spec]
                rng.shuffle(order)
                try:
                    no = tp.into_operator(order=order)
                    io.append({"order": order, "ids": list(no.node_identifiers), "mat": np.array(no.operator), "tp": tp_spec})
                except Exception as e:  # noqa
                    io.append({"order": order, "error": f"{type(e).__name__}: {e}", "tp": tp_spec})
        ob["into_operator"] = io
        try:
            gates = splitting.exponentiate_splitting(spec["dt"], ttn=(ttn if use_ttn else None), dim=const)
            ob["gates"] = [{"ids": list(g.node_identifiers), "t": np.array(g.operator)} for g in gates]
        except Exception as e:  # noqa
            ob["exp_error"] = f"{type(e).__name__}: {e}"
        return ob

    # ------------------------------------------------------------------------------------------------
    # tebd cases
    def _tebd_case(self, case):
        import pytreenet.core.ttn as ttn_mod
        from pytreenet.time_evolution.tebd import TEBD
        from pytreenet.util.tensor_splitting import SVDParameters
        rng = random.Random(case["seed"])
        nn = case["nnodes"]
        ghz = bool(case.get("ghz"))
        if case.get("scale"):
            scales = draw_scales(case["seed"], case["scale"], nn)
            drv = ScaledDriver(scales, ttn_cls=TTNS, nprs=np.random.RandomState(case["seed"] % (2 ** 31)))
        else:
            scales = None
            drv = Driver(ttn_cls=TTNS, nprs=np.random.RandomState(case["seed"] % (2 ** 31)), ints=2 if case.get("ints") else None, ghz=ghz)
        dimc = rng.choice([(2,), (2, 3), (2, 3), (1, 2, 3), (2, 2, 3)])
        nopen = (1,) if (nn <= 2 or case.get("contr_name")) else (1, 1, 1, 1, 1, 1, 0, 2)
        if ghz:
            # GHZ-like state (copy tensors, one dimension everywhere) under diagonal generators: the Schmidt spectrum on
            # every bond is exactly degenerate, so a binding max_bond_dim has to cut THROUGH a degenerate group
            dimc = (rng.choice([2, 3, 4]),)
            nopen = (1,)
        if case.get("tol") is not None:
            # dimensions >= 2 everywhere, so that the exact rank of a two-site gate is above a small max_bond_dim
            dimc = rng.choice([(2, 3), (3,), (2, 3, 3), (2,), (3, 4)])
            nopen = (1,) if nn <= 2 else (1, 1, 1, 1, 1, 1, 1, 2)
        large = case.get("large")
        if large == "nodes":
            dimc = rng.choice([(2,), (2, 2, 2, 3)]) if nn >= 12 else rng.choice([(2,), (2, 2, 3), (2, 3)])
            nopen = (1, 1, 1, 1, 1, 1, 1, 0)
        elif large == "dims":
            dimc = rng.choice([(4, 5), (5, 6), (4, 6, 7), (6,), (4, 5, 6, 7)])
            nopen = (1,)
        ops = gen_build(rng, nn, nopen_choices=nopen, dim_choices=dimc)
        if case.get("contr_name"):
            # rename a node that will not take part in the first two-site gate to the reserved name
            victim = f"n{nn - 1}"
            ops = [[(CONTR if x == victim else x) if isinstance(x, str) else x for x in op] for op in ops]
        for op in ops:
            ok, err = drv.apply(op)
            if not ok:
                raise RuntimeError(f"build op {op} failed: {err}")
        t0 = drv.ttn
        snap0 = snapshot(t0)
        nodes0 = {n[0]: n for n in snap0["nodes"]}
        elig = [k for k, n in nodes0.items() if len(n[3]) - ((n[1] is not None) + len(n[2])) == 1]
        site_dims = {k: int(t0.nodes[k].open_dimension()) for k in elig}
        edges = [(n[1], n[0]) for n in snap0["nodes"] if n[1] is not None and n[0] in elig and n[1] in elig]
        if case.get("contr_name"):
            # the node with the reserved name is a bystander: no gate touches it
            edges = [e for e in edges if CONTR not in e]
            elig = [k for k in elig if k != CONTR]
            site_dims = {k: v for k, v in site_dims.items() if k != CONTR}
        mal = None
        if not elig:
            return {"skip": "no node with exactly one open leg"}
        spec = gen_spec(rng, site_dims, edges, rng.randrange(1, 6), allow3=False, from_lists_p=0.25,
                        mats_kinds=("diag",) if ghz else ("nil",) if case.get("ints") else
                        ("gen", "gen", "real", "herm", "nil", "tiny") if case.get("scale") else ("gen", "gen", "real", "herm", "nil"))
        drive = case.get("drive")
        if drive:
            # a step size that keeps the growth of the non-unitary factors over up to ~20 steps within double range
            spec["dt"] = rng.choice([0.1, 0.05, 0.3, 0.125, 0.01, 0.2] if drive["nrun"] <= 8 else [0.05, 0.01, 0.02])
        # the final time handed to the constructor: nsteps steps exactly (ordinary families) or the driver configuration's
        final_time = spec["dt"] * case["nsteps"] if not drive else spec["dt"] * (drive["nrun"] + drive["frac"])
        if case.get("contr_name") and edges:
            a, b = edges[0]
            spec["mats"] += [[site_dims[a], "gen", 1], [site_dims[b], "gen", 2]]
            spec["tps"].append([[b, len(spec["mats"]) - 1], [a, len(spec["mats"]) - 2]])
            if spec["mode"] == "direct":
                spec["steps"].append({"tp": len(spec["tps"]) - 1, "f": 1, "before": [], "after": []})
            else:
                spec["splitting"] = (spec["splitting"] or [[i, 0] for i in range(len(spec["tps"]) - 1)]) + [len(spec["tps"]) - 1]
                for key in ("sb", "sa"):
                    if spec[key] is not None:
                        spec[key].append([])
        if case.get("malformed"):
            mal = rng.choice(["nonneighbour", "swapdim", "three", "twoopen", "unknown"])
            allids = list(nodes0)
            dims_all = {k: int(t0.nodes[k].open_dimension()) for k in allids}
            bad_tp = None
            bad_swap = None
            if mal == "nonneighbour":
                cand = [(a, b) for a in elig for b in elig if a != b and nodes0[a][1] != b and nodes0[b][1] != a]
                if cand:
                    a, b = rng.choice(cand)
                    bad_tp = [a, b]
            elif mal == "swapdim":
                cand = [e for e in edges if site_dims[e[0]] != site_dims[e[1]]]
                if cand:
                    bad_swap = list(rng.choice(cand))
                    if rng.random() < 0.5:
                        bad_swap.reverse()
            elif mal == "three":
                if len(elig) >= 3:
                    bad_tp = rng.sample(elig, 3)
            elif mal == "twoopen":
                cand = [k for k in allids if k not in elig]
                if cand:
                    bad_tp = [rng.choice(cand)]
            elif mal == "unknown":
                bad_tp = ["ghost"] if rng.random() < 0.5 else [elig[0], "ghost"]
                dims_all["ghost"] = 2
            if bad_tp is None and bad_swap is None:
                mal = None
            else:
                spec["mode"] = "direct" if spec["mode"] == "direct" else spec["mode"]
                if spec["mode"] != "direct":
                    st = spec_steps(spec)
                    spec = {"mats": spec["mats"], "tps": spec["tps"], "dt": spec["dt"], "mode": "direct",
                            "steps": [{"tp": i, "f": ([0] + [j for j, x in enumerate(FACTORS) if j and x == f])[-1] if f != 1.0 else 0,
                                       "before": b, "after": a} for i, f, b, a in st]}
                pos = rng.randrange(len(spec["steps"]) + 1)
                if bad_tp is not None:
                    tp = []
                    for x in bad_tp:
                        spec["mats"].append([dims_all[x], "gen", rng.randrange(10 ** 6)])
                        tp.append([x, len(spec["mats"]) - 1])
                    spec["tps"].append(tp)
                    spec["steps"].insert(pos, {"tp": len(spec["tps"]) - 1, "f": 1, "before": [], "after": []})
                else:
                    if not spec["steps"]:
                        mal = None
                    else:
                        s = spec["steps"][min(pos, len(spec["steps"]) - 1)]
                        s[rng.choice(["before", "after"])] = [bad_swap]
        if case["trunc"] and case.get("tol") is not None:
            rel, tot = TOL_IDIOMS[case["tol"]]
            svd = SVDParameters(max_bond_dim=rng.choice([1, 1, 2, 2, 3]), rel_tol=rel, total_tol=tot, renorm=rng.random() < 0.3,
                                sum_trunc=rng.random() < 0.2, sum_renorm=rng.random() < 0.5)
            svd_desc = [svd.max_bond_dim, svd.rel_tol, svd.total_tol, svd.renorm, svd.sum_trunc, svd.sum_renorm]
            self._stats[f"trunc:tol=({rel:g},{tot:g})"] += 1
            self._stats["trunc:sum-mode" if svd.sum_trunc else "trunc:value-mode"] += 1
            self._stats[f"trunc:max_bond={svd.max_bond_dim}"] += 1
        elif case["trunc"]:
            if rng.random() < 0.5:
                # sum mode: tiny tolerances so that a small max_bond_dim is what binds
                svd = SVDParameters(max_bond_dim=rng.choice([1, 1, 2, 2, 3]), rel_tol=rng.choice([float("-inf"), 1e-12]),
                                    total_tol=rng.choice([1e-12, 1e-12, 1e-6, 0.3]), renorm=rng.random() < 0.5,
                                    sum_trunc=True, sum_renorm=rng.random() < 0.5)
            else:
                svd = SVDParameters(max_bond_dim=rng.choice([1, 1, 2, 3, 4]), rel_tol=rng.choice([float("-inf"), 1e-12, 1e-3, 0.2]),
                                    total_tol=rng.choice([float("-inf"), 1e-12, 1e-6, 0.3]), renorm=rng.random() < 0.3,
                                    sum_trunc=False, sum_renorm=rng.random() < 0.5)
            svd_desc = [svd.max_bond_dim, svd.rel_tol, svd.total_tol, svd.renorm, svd.sum_trunc, svd.sum_renorm]
            self._stats["trunc:sum-mode" if svd.sum_trunc else "trunc:value-mode"] += 1
            self._stats[f"trunc:max_bond={svd.max_bond_dim}"] += 1
        else:
            svd = util.no_trunc()
            svd_desc = None
        ids = sorted(nodes0)
        ob = {"ops": ops, "spec": spec, "snap0": snap0, "svd": svd_desc, "malformed_kind": mal, "nsteps": case["nsteps"],
              "ttn_dims": {k: int(t0.nodes[k].open_dimension()) for k in t0.nodes}, "atoms": drv.atoms, "ids": ids,
              "raws0": {k: np.array(v) for k, v in t0._tensors.data.items()}}
        nopen_of = {k: len(n[3]) - ((n[1] is not None) + len(n[2])) for k, n in nodes0.items()}
        ob["nopen"] = nopen_of
        if scales is not None:
            ob["scales"] = scales
            ob["tensor_mags"] = {k: float(np.max(np.abs(v))) if v.size else 0.0 for k, v in ob["raws0"].items()}
        if large:
            ob["notie"] = True       # LARGE member: judged by the oracle only (the model evaluation of a 14-node / rank-7 instance is not run)
            ob["large"] = large
            self._stats[f"large:{large}"] += 1
            self._stats["large:max-tensor-size " + (lambda m: "<=64" if m <= 64 else "<=512" if m <= 512 else "<=4096" if m <= 4096 else ">4096")(
                max(int(v.size) for v in ob["raws0"].values()))] += 1
        ob["psi0"] = dense_tree(copy.deepcopy(t0), ids) if large else util.dense_ttn(copy.deepcopy(t0), ids)
        ob["final_time"] = final_time
        try:
            mats, tps, splitting = realise_spec(spec)
            tebd = TEBD(t0, splitting, spec["dt"], final_time, [], svd)
        except Exception as e:  # noqa
            ob["construct_error"] = f"{type(e).__name__}: {e}"
            return ob
        ob["exponents"] = [{"ids": list(g.node_identifiers), "t": np.array(g.operator)} for g in tebd.exponents]
        ob["caller_unchanged"] = (snapshot(t0) == snap0)
        # gate by gate, observing after every sub-operation
        st = tebd.state
        stages = []
        bonds = []
        atoms = drv.atoms

        tmp_id = [None]

        def wrap_method(name):
            orig = getattr(st, name)

            def g(*a, **kw):
                if name == "absorb_into_open_legs":
                    atoms.append(np.array(a[1]))
                if name == "contract_nodes":
                    tmp_id[0] = kw.get("new_identifier", a[2] if len(a) > 2 else None)
                    if tmp_id[0] in nodes0:
                        ob["temp_collision"] = True
                r = orig(*a, **kw)
                sn, rw = canon_tmp(snapshot(st), {k: np.array(v) for k, v in st._tensors.data.items()}, tmp_id[0])
                stages.append({"op": name, "snap": sn, "raws": rw})
                return r
            setattr(st, name, g)
        for nm in ("contract_nodes", "absorb_into_open_legs", "split_node_svd"):
            wrap_method(nm)
        orig_svd = ttn_mod.contr_truncated_svd_splitting

        def svd_wrap(*a, **kw):
            q, r = orig_svd(*a, **kw)
            atoms.append(np.array(q))
            atoms.append(np.array(r))
            bonds.append(int(q.shape[-1]))
            return q, r
        ttn_mod.contr_truncated_svd_splitting = svd_wrap
        gates_done = []
        step_states = []
        try:
            for stepno in range(case["nsteps"]):
                for u in tebd.exponents:
                    n0 = len(stages)
                    b0 = len(bonds)
                    try:
                        tebd._apply_one_trotter_step(u)
                        gates_done.append({"ok": True, "stages": stages[n0:], "bond": (bonds[b0] if len(bonds) > b0 else None),
                                           "wf": self._structure(st)})
                        if scales is not None and len(stages) - n0 == 3 and TMP in stages[n0 + 1]["raws"]:
                            # magnitude of the gate-applied pair tensor the SVD kernel receives (how far from order one the family reaches)
                            pm = float(np.max(np.abs(stages[n0 + 1]["raws"][TMP])))
                            gates_done[-1]["pairmax"] = pm
                            if pm > 0:
                                self._stats["scale:pair-tensor " + ("<=1e-8" if pm <= 1e-8 else "<=1e-2" if pm <= 1e-2 else "<=1e2" if pm <= 1e2
                                                                     else "<=1e8" if pm <= 1e8 else ">1e8")] += 1
                    except Exception as e:  # noqa
                        gates_done.append({"ok": False, "err": f"{type(e).__name__}: {e}", "stages": [], "bond": None})
                        raise
                step_states.append({"psi": self._dense(st, ids), "bonds": self._bond_dims(st), "structure": self._structure(st)})
        except Exception as e:  # noqa
            ob["step_error"] = f"{type(e).__name__}: {e}"
        finally:
            ttn_mod.contr_truncated_svd_splitting = orig_svd
        ob["gates"] = gates_done
        ob["step_states"] = step_states
        ob["structure0"] = self._structure(t0)
        # the library's own loop (run_one_time_step) on a second instance: this is what the oracle judges;
        # it must also give bit-identical tensors to the gate-by-gate run (tie)
        try:
            tebd2 = TEBD(t0, realise_spec(spec)[2], spec["dt"], final_time, [], svd)
            loop_states = []
            for _ in range(case["nsteps"]):
                tebd2.run_one_time_step()
                loop_states.append({"psi": self._dense(tebd2.state, ids), "bonds": self._bond_dims(tebd2.state),
                                    "structure": self._structure(tebd2.state)})
            ob["loop_states"] = loop_states
            if "step_error" not in ob:
                s2 = snapshot(tebd2.state)
                same = (s2 == snapshot(st)) and all(np.array_equal(tebd2.state._tensors.data[k], st._tensors.data[k]) for k in s2["tkeys"])
                ob["loop_identical"] = bool(same)
        except Exception as e:  # noqa
            ob["loop_error"] = f"{type(e).__name__}: {e}"
            ob["loop_identical"] = ob["loop_error"]
        if drive:
            ob["run"] = self._run_driven(t0, spec, final_time, svd, drive, ids, site_dims, rng, snap0,
                                         measurable=all(v == 1 for v in nopen_of.values()))
        return ob

    def _run_driven(self, t0, spec, final_time, svd, drive, ids, site_dims, rng, snap0, measurable=True):
        """the history 'construct with (dt, final_time, operators), drive all steps with run(evaluation_time)' on a third instance;
        operators are measured only on trees whose nodes all have exactly one open leg (the precondition of the library's expectation value)"""
        from pytreenet.time_evolution.tebd import TEBD
        out = {"drive": drive}
        sites = sorted(site_dims)
        opspec = [[s, [site_dims[s], "herm", rng.randrange(10 ** 6)]] for s in (rng.choice(sites) for _ in range(drive["nops"] if measurable else 0))]
        out["opspec"] = opspec
        try:
            operators = [TensorProduct({s: build_mat(e)}) for s, e in opspec]
            if len(operators) == 2 and rng.random() < 0.5:
                operators = {"first": operators[0], "second": operators[1]}
            tebd3 = TEBD(t0, realise_spec(spec)[2], spec["dt"], final_time, operators, svd)
            out["exponents"] = [{"ids": list(g.node_identifiers), "t": np.array(g.operator)} for g in tebd3.exponents]
            out["dt_reported"] = float(tebd3.time_step_size)
            out["num_time_steps"] = int(tebd3.num_time_steps)
            tebd3.run(evaluation_time=drive["ev"], pgbar=False)
            out["psi"] = self._dense(tebd3.state, ids, tree=True)
            out["bonds"] = self._bond_dims(tebd3.state)
            out["structure"] = self._structure(tebd3.state)
            out["caller_unchanged"] = (snapshot(t0) == snap0)
            out["results_shape"] = list(np.shape(tebd3.results))
        except Exception as e:  # noqa
            import traceback
            out["error"] = f"{type(e).__name__}: {e} @ {traceback.format_exc()[-300:]}"
        return out

    @staticmethod
    def _structure(t):
        return {"root": t.root_id, "nodes": {k: [n.parent, sorted(n.children)] for k, n in t.nodes.items()},
                "keys_match": sorted(t.nodes) == sorted(t._tensors.data.keys())}

    @staticmethod
    def _dense(t, ids, tree=False):
        try:
            if tree or len(ids) > 6:
                return dense_tree(copy.deepcopy(t), ids)
            return util.dense_ttn(copy.deepcopy(t), ids)
        except Exception as e:  # noqa
            return f"{type(e).__name__}: {e}"

    @staticmethod
    def _bond_dims(t):
        cp = copy.deepcopy(t)
        out = {}
        for k, n in cp.nodes.items():
            if n.parent is not None:
                out[k] = [int(cp.tensors[k].shape[0]), int(cp.tensors[n.parent].shape[cp.nodes[n.parent].neighbour_index(k)])]
        return out

    # ------------------------------------------------------------------------------------------------
    # hist cases: several phases on ONE TEBD object, the truncation setting changed between them; the state handed over as
    # plain caller arrays, possibly ONE array object behind several nodes
    def _hist_case(self, case):
        from pytreenet.core.node import Node
        from pytreenet.time_evolution.tebd import TEBD
        from pytreenet.util.tensor_splitting import SVDParameters
        rng = random.Random(case["seed"])
        nprs = np.random.RandomState(case["seed"] % (2 ** 31))
        n = rng.choice([2, 3, 3, 4, 4, 5, 6])
        form = rng.choice(["random", "random", "star", "chain"])
        parents = util.random_parents(rng, n) if form == "random" else [None] + ([0] * (n - 1) if form == "star" else list(range(n - 1)))
        ch = [[c for c in range(n) if parents[c] == i] for i in range(n)]
        uniform = rng.random() < 0.7
        pd, bd = rng.choice([2, 2, 3]), rng.choice([1, 2, 2, 3])
        phys = [pd if uniform else rng.choice([2, 3]) for _ in range(n)]
        bond = [None] + [bd if uniform else rng.choice([1, 2, 3]) for _ in range(1, n)]
        shapes = [tuple(([bond[i]] if i else []) + [bond[c] for c in ch[i]] + [phys[i]]) for i in range(n)]
        share = rng.choice(["none", "all", "all", "all", "some"])
        dtype = rng.choice(["c128", "c128", "c128", "c128", "f64"])
        read_before = rng.random() < 0.2
        fmt = rng.choice(HIST_NAMES)
        ids = [("q" * (i + 1)) if fmt == "q" else fmt.format(i) for i in range(n)]
        # the caller's arrays: nodes of equal shape may be given ONE array object ([leaf] * k handed to add_child_to_parent)
        arrays, arr_of = [], []
        by_shape = {}
        for i in range(n):
            cand = by_shape.setdefault(shapes[i], [])
            if cand and (share == "all" or (share == "some" and rng.random() < 0.6)):
                arr_of.append(rng.choice(cand))
                continue
            x = nprs.standard_normal(shapes[i])
            if dtype == "c128":
                x = x + 1j * nprs.standard_normal(shapes[i])
            arrays.append(x)
            cand.append(len(arrays) - 1)
            arr_of.append(len(arrays) - 1)
        kept = [a.copy() for a in arrays]
        groups = [[ids[i] for i in range(n) if arr_of[i] == k] for k in range(len(arrays))]
        groups = [g for g in groups if len(g) > 1]
        site_dims = {ids[i]: phys[i] for i in range(n)}
        edges = [(ids[parents[i]], ids[i]) for i in range(1, n)]
        spec = gen_spec(rng, site_dims, edges, rng.randrange(2, 7), allow3=False, from_lists_p=0.25,
                        mats_kinds=("gen", "real", "herm", "nil", "diag"))
        for tp in spec["tps"]:
            if len(tp) == 1 and rng.random() < 0.5:
                spec["mats"][tp[0][1]][1] = "diag"       # on-site field / number operator: an exactly diagonal factor
        layout = rng.choice(["mixed", "mixed", "fields-first", "fields-first", "fields-last"])
        if spec["mode"] == "direct" and layout != "mixed":
            # the usual layouts of a splitting: all on-site terms, then the bond terms (or the other way round)
            spec["steps"].sort(key=lambda st: (len(spec["tps"][st["tp"]]) == 1) == (layout == "fields-last"))
        # the history: the constructor's setting, then 1-3 changes through the public attribute (a new object assigned, or the object
        # in force edited in place through the caller's reference / through tebd.svd_parameters), optionally after a reset
        first = rng.choice(["off", "off", "off", "cap", "rand", "default"])
        phases = [{"how": "ctor", "set": hist_setting(rng, first), "steps": rng.choice([1, 1, 2]), "reset": False}]
        for _ in range(rng.choice([1, 1, 2, 3])):
            prev_exact = hist_exact(phases[-1]["set"])
            kind = rng.choice(["cap", "cap", "cap", "rand", "off"] if prev_exact else ["off", "off", "cap", "rand"])
            phases.append({"how": rng.choice(["assign", "inplace-caller", "inplace-attr"]), "set": hist_setting(rng, kind),
                           "steps": rng.choice([1, 1, 2]), "reset": rng.random() < 0.25, "validate": rng.random() < 0.5})
        total = sum(ph["steps"] for ph in phases)
        ob = {"notie": True, "parents": parents, "ids": ids, "phys": phys, "bond": bond, "share": share, "groups": groups, "dtype": dtype,
              "read_before": read_before, "spec": spec, "phases": phases, "dims": site_dims, "psi0": dense_arrays(parents, [kept[k] for k in arr_of])}
        self._stats[f"hist:arrays shared={'yes' if groups else 'no'} read-before={'yes' if read_before else 'no'} {dtype}"] += 1
        t0 = TTNS()
        t0.add_root(Node(identifier=ids[0]), arrays[arr_of[0]])
        for i in range(1, n):
            p = parents[i]
            t0.add_child_to_parent(Node(identifier=ids[i]), arrays[arr_of[i]], 0, ids[p], (1 if p else 0) + ch[p].index(i))
        if read_before:
            for k in ids:
                t0.tensors[k]        # noqa: B018  (the caller looked at the state before handing it over)
        s0 = self._structure(t0)
        ob["structure0"] = s0
        mk = lambda st: None if st is None else SVDParameters(**dict(zip(HIST_FIELDS, st)))      # noqa: E731
        try:
            held = mk(phases[0]["set"])
            tebd = TEBD(t0, realise_spec(spec)[2], spec["dt"], spec["dt"] * total, [], held)
        except Exception as e:  # noqa
            ob["construct_error"] = f"{type(e).__name__}: {e}"
            return ob
        ob["exponents"] = [{"ids": list(g.node_identifiers), "t": np.array(g.operator)} for g in tebd.exponents]
        rec = []
        try:
            for j, ph in enumerate(phases):
                if j:
                    if ph["how"] == "assign" or tebd.svd_parameters is None:
                        held = mk(ph["set"])
                        tebd.svd_parameters = held
                    else:
                        target = held if (ph["how"] == "inplace-caller" and held is not None) else tebd.svd_parameters
                        for name, val in zip(HIST_FIELDS, ph["set"]):
                            setattr(target, name, val)
                        if ph["validate"]:
                            target.check_truncation_parameters()
                        held = target
                    if ph["reset"]:
                        tebd.reset_to_initial_state()
                cfg = tebd.svd_parameters
                states = []
                for _ in range(ph["steps"]):
                    tebd.run_one_time_step()
                    states.append({"psi": self._dense(tebd.state, ids, tree=True), "bonds": self._bond_dims(tebd.state),
                                   "structure": self._structure(tebd.state)})
                rec.append({"reported": [getattr(cfg, f) for f in HIST_FIELDS], "states": states})
        except Exception as e:  # noqa
            import traceback
            ob["step_error"] = f"{type(e).__name__}: {e} @ {traceback.format_exc()[-300:]}"
        ob["rec"] = rec
        ob["caller_unchanged"] = bool(all(np.array_equal(a, b) and a.dtype == b.dtype for a, b in zip(arrays, kept)) and self._structure(t0) == s0)
        return ob

    def _swapmat_case(self, case):
        from pytreenet.operators.common_operators import swap_gate
        try:
            m = swap_gate(case["d"])
        except Exception as e:  # noqa
            return {"error": f"{type(e).__name__}: {e}"}
        return {"shape": list(m.shape), "m": np.array(m)}

    def impl(self, ctx, cases):
        self._stats = Counter()
        out = []
        for c in cases:
            try:
                if c["kind"] == "split":
                    out.append(self._split_case(c))
                elif c["kind"] == "tebd":
                    out.append(self._tebd_case(c))
                elif c["kind"] == "hist":
                    out.append(self._hist_case(c))
                else:
                    out.append(self._swapmat_case(c))
            except Exception as e:  # noqa
                import traceback
                out.append({"exception": f"{type(e).__name__}: {e}", "tb": traceback.format_exc()[-2000:]})
        return out

    # ------------------------------------------------------------------------------------------------
    def model(self, ctx, cases, obs):
        exprs = []
        idx = []
        for i, (c, ob) in enumerate(zip(cases, obs)):
            if "exception" in ob or "skip" in ob or ob.get("notie"):
                continue
            if c["kind"] == "tebd" and ob.get("temp_collision"):
                continue      # the temporary identifier collides with a node: no model (known finding / fixed by a fresh identifier)
            idm = IdMap()
            ob["_idm"] = idm
            if c["kind"] == "swapmat":
                d = c["d"]
                exprs.append(f"(swap_gate {coq_nat(d)}, map (swap_sigma {coq_nat(d)}) (seq 0 ({coq_nat(d)} * {coq_nat(d)})))")
            elif c["kind"] == "split":
                spec = ob["spec"]
                ds = coq_dimsrc(ob["const"], ob["ttn_dims"], idm)
                io = coq_list([f"(@into_operator nat {coq_tp(x['tp'], idm)} (Some {coq_list([idm(k) for k in x['order']], coq_nat)}))"
                               for x in ob.get("into_operator", [])])
                exprs.append(f"(let mdim := {coq_mdim(spec)} in let ds := {ds} in "
                             f"let io : list (option (list nat * list nat)) := {io} in "
                             f"match {coq_steps_expr(spec, idm)} with "
                             f"| Some steps => (Some (map tstep_obs steps), option_map (map gate_obs) (@exponentiate_splitting nat nat mdim ds steps), io) "
                             f"| None => (None, None, io) end)")
            else:
                spec = ob["spec"]
                for k in ob["ttn_dims"]:
                    idm(k)
                ds = coq_dimsrc(None, ob["ttn_dims"], idm)
                contr = idm(TMP)
                kbs = []
                for g in ob.get("gates", []):
                    if ob["svd"] is None:
                        kbs.append((1, 0))
                    else:
                        kbs.append((2, g["bond"] or 0))
                ngates_total = len(ob.get("exponents", [])) * ob["nsteps"]
                while len(kbs) < ngates_total:
                    kbs.append((1, 0))
                kb = coq_list([f"({coq_nat(a)}, {coq_nat(b)})" for a, b in kbs])
                opl = coq_list([("(" + wmodel.coq_op(o, idm) + ")") for o in ob["ops"]])
                exprs.append(f"(let mdim := {coq_mdim(spec)} in let ds := {ds} in "
                             f"match {coq_steps_expr(spec, idm)} with "
                             f"| Some steps => match @exponentiate_splitting nat nat mdim ds steps with "
                             f"  | Some gs => let tg := mk_tgates (repeat_list {coq_nat(ob['nsteps'])} gs) {kb} in "
                             f"     Some (map gate_obs gs, build_and_step {coq_nat(contr)} {opl} tg, "
                             f"           (build_and_hyps {coq_nat(contr)} {opl} tg, wfsb (fst (run empty_store {opl})))) "   # [GateValue] wfsb: hypothesis of the value theorems
                             f"  | None => None end "
                             f"| None => None end)")
            idx.append(i)
        vals = coq_eval(ctx, IMPORTS, exprs, shard=6, scope="nat_scope", timeout=800)
        out = [None] * len(cases)
        for i, v in zip(idx, vals):
            out[i] = v
        self._inst = [0, 0, []]
        return out

    # ------------------------------------------------------------------------------------------------
    def compare(self, case, ob, mo):
        if "exception" in ob:
            return f"harness/implementation exception: {ob['exception']} {ob.get('tb', '')[-600:]}"
        if case["kind"] == "swapmat":
            sg, sigma = mo
            if "error" in ob:
                return None if sg is None else f"implementation rejects d={case['d']} ({ob['error']}), model accepts"
            if sg is None:
                return "model rejects, implementation accepts"
            mm = np.array(sg[1], dtype=float).reshape(ob["m"].shape) if ob["m"].size else np.zeros(ob["m"].shape)
            if not np.array_equal(ob["m"], mm.astype(complex)):
                return f"swap_gate({case['d']}) differs from the model matrix"
            for i, j in enumerate(sigma):
                if ob["m"][i, j] != 1:
                    return f"row {i}: the 1 is not in column sigma={j}"
            return None
        idm = ob["_idm"]
        if case["kind"] == "split":
            return self._compare_split(case, ob, mo, idm)
        return self._compare_tebd(case, ob, mo, idm)

    def _compare_gates(self, spec, impl_gates, mgates, dims):
        if len(impl_gates) != len(mgates):
            return f"number of gates: impl {len(impl_gates)} model {len(mgates)}"
        for j, (g, m) in enumerate(zip(impl_gates, mgates)):
            if g["ids"] != m["ids"]:
                return f"gate {j}: identifiers impl {g['ids']} model {m['ids']}"
            if list(g["t"].shape) != m["shape"]:
                return f"gate {j}: shape impl {list(g['t'].shape)} model {m['shape']}"
            k = classify_tensor(g["t"])
            if k != m["kind"] and not (m["kind"] == "exp" and k == "swap"):
                return f"gate {j}: kind impl {k} model {m['kind']}"
            ref = model_gate_tensor(m, spec)
            if not np.allclose(g["t"], ref, rtol=1e-9, atol=1e-9 * max(1.0, float(np.max(np.abs(ref))))):
                return f"gate {j} {m['ids']}: tensor differs from the model descriptor (kron order {m['kron']}, factor {m['f']}) by {float(np.max(np.abs(g['t'] - ref))):.2e}"
            # axis roles: derive the roles of the implementation's axes from a reference in sorted-site order
            sites = sorted(set(m["ids"]))
            if len(sites) == len(m["ids"]) and len(sites) <= 2:
                perm = [m["ids"].index(s) for s in sites]
                kk = len(sites)
                canon = ref.transpose(perm + [kk + p for p in perm])
                roles = axis_roles(g["t"], g["ids"], sites, canon)
                if [tuple(x) for x in m["axes"]] not in [[tuple(y) for y in r] for r in roles]:
                    return f"gate {j}: axis roles impl {roles} model {m['axes']}"
                self._stats[f"roles:{m['kind']}{len(sites)}:" + ("unique" if len(roles) == 1 else "ambiguous")] += 1
        return None

    def _compare_split(self, case, ob, mo, idm):
        msteps, mgates, mio = mo
        if "build_error" in ob:
            return None if msteps is None else f"from_lists / constructor raised {ob['build_error']} but the model builds the steps"
        if msteps is None:
            return "model rejects the construction, implementation accepts"
        msteps = msteps[1]
        isteps = ob["steps"]
        ms = [[[[idm.r[i], m] for i, m in op], f, [[idm.r[a], idm.r[b]] for a, b in sb], [[idm.r[a], idm.r[b]] for a, b in sa]] for op, f, sb, sa in msteps]
        if ms != isteps:
            return f"steps differ: impl {isteps} model {ms}"
        for x, m in zip(ob.get("into_operator", []), mio):
            if "error" in x:
                if m is not None:
                    return f"into_operator(order={x['order']}) raised {x['error']}, model accepts"
                continue
            if m is None:
                return f"into_operator(order={x['order']}): model rejects"
            kron, ids = m[1]
            if [idm.r[i] for i in ids] != x["ids"]:
                return f"into_operator(order={x['order']}): identifiers impl {x['ids']} model {[idm.r[i] for i in ids]}"
            mats = [build_mat(e) for e in ob["spec"]["mats"]]
            ref = np.ones((1, 1))
            for lab in kron:
                ref = np.kron(ref, mats[lab])
            if ref.shape != x["mat"].shape or not np.array_equal(ref, x["mat"]):
                return f"into_operator(order={x['order']}): matrix is not the Kronecker product in the order {kron}"
        if "exp_error" in ob:
            return None if mgates is None else f"exponentiate_splitting raised {ob['exp_error']} but the model returns gates"
        if mgates is None:
            return "model rejects exponentiate_splitting, implementation returns gates"
        return self._compare_gates(ob["spec"], ob["gates"], gates_from_model(mgates[1], idm), None)

    def _compare_tebd(self, case, ob, mo, idm):
        if "construct_error" in ob:
            return None if mo is None else f"TEBD construction raised {ob['construct_error']} but the model returns gates"
        if mo is None:
            return "model rejects the splitting, implementation constructs the TEBD object"
        mgates, mrest, mhyps = mo[1]
        mhyps, mwfsb = mhyps          # [GateValue] (pair_okb before every two-site gate, wfsb of the initial store)
        mobs0, mtrace, mkept = mrest[:5], mrest[5], mrest[6]      # left-nested pairs print flat
        d = self._compare_gates(ob["spec"], ob["exponents"], gates_from_model(mgates, idm), None)
        if d:
            return d
        m0 = wmodel.model_obs_to_py(mobs0, idm)
        d = wmodel.compare_snapshot(ob["snap0"], m0)
        if d:
            return f"initial network: {d}"
        gates = ob["gates"]
        if len(gates) != len(mtrace) and not (gates and not gates[-1]["ok"]):
            if len(mtrace) < len(gates) or mtrace[len(gates) - 1][0]:
                pass
        for j, g in enumerate(gates):
            if j >= len(mtrace):
                return f"gate {j}: the model stopped earlier"
            mok, mst = mtrace[j]
            if g["ok"] != mok:
                return f"gate {j}: implementation {'accepted' if g['ok'] else 'rejected (' + g['err'] + ')'} but model {'accepted' if mok else 'rejected'}"
            if not mok:
                break
            if len(mst) != len(g["stages"]):
                return f"gate {j}: {len(g['stages'])} sub-operations observed, model has {len(mst)}"
            self._stats[f"gate:{len(mst)}-stage"] += 1
            gi = ob["exponents"][j % len(ob["exponents"])]["ids"]
            if len(gi) == 2:
                par = {n[0]: n[1] for n in ob["snap0"]["nodes"]}
                self._stats["pair:parent-first" if par.get(gi[1]) == gi[0] else "pair:child-first"] += 1
            for stg, mo_ in zip(g["stages"], mst):
                mpy = wmodel.model_obs_to_py(mo_, idm)
                d = wmodel.compare_snapshot(stg["snap"], mpy)
                if d:
                    return f"gate {j} after {stg['op']}: {d}"
                for kk, raw in stg["raws"].items():
                    try:
                        val = wmodel.eval_diagram(mpy["tensors"][kk], mpy["atab"], ob["atoms"])
                    except Exception as e:  # noqa
                        return f"gate {j} after {stg['op']}: cannot evaluate the model diagram of {kk}: {e}"
                    if val.shape != raw.shape or not np.allclose(val, raw, rtol=1e-9, atol=1e-9 * max(1.0, float(np.max(np.abs(raw))) if raw.size else 1.0)):
                        return f"gate {j} after {stg['op']}: tensor {kk} differs from the model diagram"
                    if case.get("scale") and not rel_close(val, raw, 1e-9):
                        return f"gate {j} after {stg['op']}: tensor {kk} differs from the model diagram (relative to its own magnitude {float(np.max(np.abs(raw))):.2e})"
            # [GateValue] the kernel contract of C08_two_site_gate_value / C08_tebd_step_value (def_holds on the record of
            # this split), numerically: the two SVD factors contracted over the new bond = the diagram the kernel
            # received (contracted pair with the gate attached); only when truncation is disabled
            if len(mst) == 3 and len(gi) == 2 and ob["svd"] is None:
                d = self._kernel_contract(wmodel.model_obs_to_py(mst[1], idm), wmodel.model_obs_to_py(mst[2], idm), gi, ob["atoms"],
                                          floor=0.0 if case.get("scale") else 1.0)
                if d:
                    return f"gate {j} {gi}: {d}"
        n_ok = sum(1 for g in gates if g["ok"])
        if len(mtrace) != len(gates):
            return f"{len(gates)} gates processed by the implementation, {len(mtrace)} by the model"
        if "step_error" not in ob:
            self._inst[0] += 3
            if mwfsb is True:           # [GateValue] hypothesis of C08_*_value on the initial store (kept by every gate: theorem)
                self._inst[1] += 1
            else:
                self._inst[2].append(f"wfsb (hypothesis of C08_tebd_step_value) false on the initial model store (seed {case['seed']})")
            if mkept is not None and mkept[1] is True:
                self._inst[1] += 1
            else:
                self._inst[2].append(f"structure_kept is not true on the model state after the step (seed {case['seed']})")
            if mhyps is True:
                self._inst[1] += 1
            else:
                self._inst[2].append(f"pair_okb (hypotheses of C08_two_site_gate_restores) false before some two-site gate (seed {case['seed']})")
            if ob.get("loop_identical") is not True:
                return f"run_one_time_step on a second instance does not reproduce the gate-by-gate run: {ob.get('loop_identical')}"
        elif mkept is not None:
            return "model completes the step, implementation raised"
        return None

    def _kernel_contract(self, m2, m3, gi, atoms, floor=1.0):
        """[GateValue] U . (S.Vh) over the new bond == value of the diagram of the temporary node before the split"""
        tmpk = [k for k in m2["tkeys"] if k not in m3["tkeys"]]
        if len(tmpk) != 1 or any(k not in m3["tensors"] for k in gi):
            return None
        try:
            D = m2["tensors"][tmpk[0]]
            lhs = wmodel.eval_diagram(D, m2["atab"], atoms)
            fa, fb = m3["tensors"][gi[0]], m3["tensors"][gi[1]]
            va = wmodel.eval_diagram(fa, m3["atab"], atoms)
            vb = wmodel.eval_diagram(fb, m3["atab"], atoms)
            wires = {}
            lab = lambda w: wires.setdefault(w, len(wires))
            rhs = np.einsum(va, [lab(w) for w in fa["axes"]], vb, [lab(w) for w in fb["axes"]], [lab(w) for w in D["axes"]])
        except Exception as e:  # noqa
            return f"cannot evaluate the kernel contract: {e}"
        scale = max(floor, float(np.max(np.abs(lhs))) if lhs.size else 1.0)      # floor 0 (badly scaled family): relative to the pair tensor itself
        if lhs.shape != rhs.shape or not np.allclose(lhs, rhs, rtol=1e-9, atol=1e-9 * scale):
            return ("kernel contract violated: the two factors of split_node_svd contracted over the new bond differ from the "
                    f"gate-applied pair by {float(np.max(np.abs(lhs - rhs))) if lhs.shape == rhs.shape else 'shape'}")
        self._stats["contract:svd-validated"] += 1
        return None

    def extra_obligations(self, ctx):
        n, ok, fails = getattr(self, "_inst", [0, 0, []])
        return n, ok, fails[:5]

    # ------------------------------------------------------------------------------------------------
    def oracle(self, case, ob):
        if "exception" in ob:
            return f"exception {ob['exception']}"
        if "skip" in ob:
            return None
        if case["kind"] == "swapmat":
            d = case["d"]
            if d == 0:
                return None
            if "error" in ob:
                return f"swap_gate({d}) raised {ob['error']}"
            m = ob["m"]
            for a in range(d):
                for b in range(d):
                    ea = np.zeros(d); ea[a] = 1
                    eb = np.zeros(d); eb[b] = 1
                    if not np.array_equal(m @ np.kron(ea, eb), np.kron(eb, ea).astype(complex)):
                        return f"swap_gate({d}) does not map |{a},{b}> to |{b},{a}>"
            if not np.array_equal(m @ m, np.eye(d * d)):
                return f"swap_gate({d}) squared is not the identity"
            return None
        if case["kind"] == "hist":
            return self._oracle_hist(case, ob)
        if case.get("malformed") and ob.get("malformed_kind"):
            return None
        if case["kind"] == "split":
            if "build_error" in ob or "exp_error" in ob:
                return f"valid splitting rejected: {ob.get('build_error') or ob.get('exp_error')}"
            dims = dict(ob["ttn_dims"] or {})
            if ob["ttn_dims"] is None:
                class _D(dict):
                    def get(s, k, default=None):
                        return ob["const"]
                dims = _D()
            return self._oracle_gates(ob["spec"], ob["gates"], dims, use_const=ob["const"] if ob["ttn_dims"] is None else None,
                                      const_for_exp=ob["const"])
        return self._oracle_tebd(case, ob)

    def _oracle_hist(self, case, ob):
        """a history on one TEBD object: in every phase whose setting disables truncation each step is the ordered product of the dense
        gates applied to the state before it (the first state from the caller's arrays by numpy alone); in every phase with a configured
        maximum every bond a two-site gate acts on is within [1, maximum] after every step; structure and the caller's arrays untouched"""
        spec, dims, ids, phases = ob["spec"], ob["dims"], ob["ids"], ob["phases"]
        par = ob["parents"]
        hist = " -> ".join(f"[{ph['how']}{'+reset' if ph['reset'] else ''} {'default' if ph['set'] is None else ph['set'][:3]} x{ph['steps']}]" for ph in phases)
        desc = (f"tree parents={par} ids={ids} phys={ob['phys']} bonds={ob['bond'][1:]} {ob['dtype']} arrays; one array object behind "
                f"{ob['groups'] or 'no two nodes'}{', read before construction' if ob['read_before'] else ''}; steps="
                f"{[(sorted(k for k, _ in spec['tps'][i]), [spec['mats'][m][1] for _, m in sorted(spec['tps'][i])], f) for i, f, _, _ in (spec_steps(spec) or [])]} "
                f"dt={spec['dt']}; history {hist}")
        if "construct_error" in ob:
            return f"valid splitting rejected at construction: {ob['construct_error']} ({desc})"
        if "step_error" in ob:
            return f"the history raised {ob['step_error']} ({desc})"
        d = self._oracle_gates(spec, ob["exponents"], dims)
        if d:
            return f"TEBD.exponents: {d} ({desc})"
        if not ob["caller_unchanged"]:
            return f"the caller's arrays / initial state were modified ({desc})"
        exp = expected_gates(spec, dims)
        axis = {k: j for j, k in enumerate(ids)}
        s0 = ob["structure0"]
        touched = set()
        for e in exp:
            if len(e[1]) == 2:
                a, b = e[1]
                touched.add(a if s0["nodes"][a][0] == b else b)
        psi0 = np.array(ob["psi0"], dtype=complex)
        psi = psi0
        stepno = 0
        for j, (ph, rc) in enumerate(zip(phases, ob["rec"])):
            want = [100, 1e-15, 1e-15, False, False, True] if ph["set"] is None else ph["set"]
            if list(rc["reported"]) != list(want):
                return f"phase {j}: tebd.svd_parameters reports {rc['reported']}, configured {want} ({desc})"
            exact = hist_exact(ph["set"])
            mb = hist_cap(ph["set"])
            if j:
                self._stats[f"hist:switch {'off' if hist_exact(phases[j - 1]['set']) else 'trunc'}->{'off' if exact else 'trunc'} by {ph['how']}"
                            + ("+reset" if ph["reset"] else "")] += 1
            if ph["reset"]:
                psi = psi0
            for ss in rc["states"]:
                stepno += 1
                where = f"step {stepno} (phase {j}: {ph['how']}, max_bond_dim={mb}, rel_tol={want[1]}, total_tol={want[2]})"
                if ss["structure"] != s0:
                    return f"{where}: identifiers / parent-child relations changed: {self._diff_structure(s0, ss['structure'])} ({desc})"
                if isinstance(ss["psi"], str):
                    return f"{where}: the state cannot be contracted: {ss['psi']} ({desc})"
                for k, (dc, dp) in ss["bonds"].items():
                    if dc != dp:
                        return f"{where}: bond above {k} has different dimensions at its two ends ({dc}, {dp}) ({desc})"
                if exact:
                    # the factors need not be unitary (generic generators, complex factors) and successive factors may nearly cancel: the
                    # tolerance is relative to the largest amplitude the reference passes through WITHIN this step, and every step starts
                    # from the state the previous one left (the statement is per step)
                    peak = max(1.0, float(np.max(np.abs(psi))))
                    kappa = 1.0          # largest 2-norm condition number of a gate of this step: rounding errors of applying /
                                         # splitting a non-unitary gate scale with it, so the tolerance does too
                    for e in exp:
                        if e[0] == "swap":
                            a, b = e[1]
                            psi = np.swapaxes(psi, axis[a], axis[b])
                        else:
                            sites = list(e[1])
                            psi = apply_local(psi, [axis[s] for s in sites], e[2].reshape([dims[s] for s in sites] * 2))
                            sv = np.linalg.svd(np.asarray(e[2], dtype=complex).reshape(int(np.prod([dims[s] for s in sites])), -1), compute_uv=False)
                            kappa = max(kappa, float(sv[0] / max(sv[-1], 1e-300)))
                        peak = max(peak, float(np.max(np.abs(psi))))
                    got = ss["psi"]
                    tol = max(1e-8, 100 * 2.3e-16 * kappa)
                    if tol > 1e-5:
                        self._stats["hist:exact-step-too-ill-conditioned-to-judge (gate condition number > 4e8)"] += 1
                        psi = np.array(got, dtype=complex) if got.shape == psi.shape else psi
                        continue
                    if got.shape != psi.shape or not rel_close(got, psi, tol, floor=peak):
                        return (f"{where}: truncation disabled, but the state differs from the ordered product of the dense gates applied to the "
                                f"state before (max diff {float(np.max(np.abs(got - psi))) if got.shape == psi.shape else 'shape'}, "
                                f"largest amplitude {float(np.max(np.abs(psi))):.2e}, largest intermediate amplitude {peak:.2e}, largest gate condition number {kappa:.1e}, tolerance {tol:.1e}) ({desc})")
                    self._stats["hist:exact-step-validated"] += 1
                    psi = np.array(got, dtype=complex)
                else:
                    for k in sorted(touched):
                        dc = ss["bonds"][k][0]
                        if not 1 <= dc <= mb:
                            return (f"{where}: bond above {k} has dimension {dc}, outside [1, {mb}] = the maximum configured for this phase "
                                    f"(bonds {dict((b, v[0]) for b, v in ss['bonds'].items())}) ({desc})")
                    if touched and any(ss["bonds"][k][0] == mb for k in touched):
                        self._stats["hist:a-bond-equals-max"] += 1
                    psi = np.array(ss["psi"], dtype=complex)       # continue from the truncated state
        if len(ob["rec"]) != len(phases):
            return f"the history stopped after {len(ob['rec'])} of {len(phases)} phases ({desc})"
        return None

    @staticmethod
    def _as_operator(g, sites):
        """the gate tensor re-expressed with axes (out sites..., in sites...) in the order `sites`"""
        ids = g["ids"]
        if sorted(ids) != sorted(sites) or len(set(ids)) != len(ids):
            return None
        k = len(ids)
        perm = [ids.index(s) for s in sites]
        return g["t"].transpose(perm + [k + p for p in perm])

    def _oracle_gates(self, spec, gates, dims, use_const=None, const_for_exp=None):
        exp = expected_gates(spec, dims)
        if exp is None:
            return None
        if len(exp) != len(gates):
            return f"{len(gates)} gates returned, the splitting has {len(exp)}"
        for j, (e, g) in enumerate(zip(exp, gates)):
            if e[0] == "swap":
                a, b = e[1]
                op = self._as_operator(g, [a, b])
                d = e[2]
                if op is None:
                    return f"gate {j}: expected SWAP on {e[1]}, got identifiers {g['ids']}"
                if op.shape != (d, d, d, d) or not np.array_equal(op, swap_perm(d)):
                    return f"gate {j}: not the SWAP of {e[1]}"
            else:
                sites = list(e[1])
                op = self._as_operator(g, sites)
                if op is None:
                    return f"gate {j}: expected a factor on {sites}, got identifiers {g['ids']}"
                shp = [ (const_for_exp if const_for_exp is not None else dims.get(s)) for s in sites]
                ref = e[2].reshape(shp * 2)
                if op.shape != ref.shape or not np.allclose(op, ref, rtol=1e-9, atol=1e-9 * max(1.0, float(np.max(np.abs(ref))))):
                    return f"gate {j} on {sites}: not exp(-i f dt A(x)B) with the operators on the sites they are keyed by (max diff {float(np.max(np.abs(op - ref))) if op.shape == ref.shape else 'shape'})"
        return None

    def _oracle_tebd(self, case, ob):
        if "construct_error" in ob:
            return f"valid splitting rejected at construction: {ob['construct_error']}"
        if "loop_error" in ob:
            return f"run_one_time_step raised {ob['loop_error']}"
        if "step_error" in ob:
            return f"run raised {ob['step_error']}"
        if not ob.get("caller_unchanged", True):
            return "the caller's initial state was modified"
        spec = ob["spec"]
        dims = ob["ttn_dims"]
        d = self._oracle_gates(spec, ob["exponents"], dims)
        if d:
            return "TEBD.exponents: " + d
        s0 = ob["structure0"]
        for j, g in enumerate(ob["gates"]):
            if g["wf"] != s0:
                return f"after gate {j}: identifiers / parent-child relations changed: {self._diff_structure(s0, g['wf'])}"
        # ordered product of dense unitaries
        ids = ob["ids"]
        axis = {}
        pos = 0
        for k in ids:
            axis[k] = pos
            pos += ob["nopen"][k]
        exp = expected_gates(spec, dims)
        psi = np.array(ob["psi0"], dtype=complex)
        for stepno, ss in enumerate(ob["loop_states"]):
            for e in exp:
                if e[0] == "swap":
                    a, b = e[1]
                    if psi.shape[axis[a]] != psi.shape[axis[b]]:
                        return None
                    psi = np.swapaxes(psi, axis[a], axis[b])
                else:
                    sites = list(e[1])
                    u = e[2].reshape([dims[s] for s in sites] * 2)
                    psi = apply_local(psi, [axis[s] for s in sites], u)
            if ss["structure"] != s0:
                return f"after step {stepno + 1}: identifiers / parent-child relations changed: {self._diff_structure(s0, ss['structure'])}"
            if isinstance(ss["psi"], str):
                return f"after step {stepno + 1}: the state cannot be contracted: {ss['psi']}"
            if ob["svd"] is None:
                got = ss["psi"]
                scale = max(1.0, float(np.max(np.abs(psi))))
                if got.shape != psi.shape or not np.allclose(got, psi, rtol=1e-8, atol=1e-8 * scale):
                    return (f"after step {stepno + 1}: state differs from the ordered product of the dense gates applied to the old state "
                            f"(max diff {float(np.max(np.abs(got - psi))) if got.shape == psi.shape else 'shape'}, scale {scale:.2e})")
                if case.get("scale") and not rel_close(got, psi, 1e-8):
                    # badly scaled family: the tolerance is relative to the magnitude of the dense reference itself (no floor at one),
                    # so that a state of tiny norm is judged as strictly as a normalised one
                    ref = float(np.max(np.abs(psi)))
                    return (f"after step {stepno + 1}: state differs from the ordered product of the dense gates applied to the old state "
                            f"(max diff {float(np.max(np.abs(got - psi))):.3e} = {float(np.max(np.abs(got - psi))) / ref if ref else float('inf'):.3e} "
                            f"of the largest amplitude {ref:.3e} of the reference; tensor scale factors {[f'{x:.1e}' for x in ob.get('scales', [])]}, "
                            f"bonds {ss['bonds']})")
            else:
                mb = ob["svd"][0]
                if stepno == 0:
                    # the bond every single two-site gate of the observed run leaves behind
                    for j, g in enumerate(ob["gates"]):
                        if g.get("bond") is not None and not 1 <= g["bond"] <= mb:
                            gi = ob["exponents"][j % len(ob["exponents"])]["ids"]
                            return (f"gate {j} on {gi}: the new bond has dimension {g['bond']}, outside [1, {mb}] "
                                    f"(max_bond_dim={mb}, rel_tol={ob['svd'][1]}, total_tol={ob['svd'][2]}, sum_trunc={ob['svd'][4]})")
                    if any(g.get("bond") == mb for g in ob["gates"]):
                        self._stats["trunc:a-bond-equals-max"] += 1
                for k, (dc, dp) in ss["bonds"].items():
                    if dc != dp:
                        return f"after step {stepno + 1}: bond above {k} has different dimensions at its two ends ({dc}, {dp})"
                # only bonds touched by a two-site gate are re-truncated; the others keep their initial size
                touched = set()
                for e in exp:
                    if len(e[1]) == 2:
                        a, b = e[1]
                        touched.add(a if s0["nodes"][a][0] == b else b)
                for k in touched:
                    dc = ss["bonds"][k][0]
                    if dc < 1 or dc > mb:
                        return (f"after step {stepno + 1}: bond above {k} has dimension {dc}, outside [1, {mb}] "
                                f"(max_bond_dim={mb}, rel_tol={ob['svd'][1]}, total_tol={ob['svd'][2]}, sum_trunc={ob['svd'][4]})")
                psi = np.array(ss["psi"], dtype=complex)      # continue from the truncated state
        if ob.get("run") is not None:
            return self._oracle_run(case, ob, ob["run"], exp, axis, dims, s0)
        return None

    def _oracle_run(self, case, ob, run, exp, axis, dims, s0):
        """the history 'all steps driven by run(evaluation_time)': every factor is built with the CONFIGURED step dt whatever the final
        time, and after the run the state is (ordered product of the gates)^N applied to the initial state, N = the number of steps"""
        drive = run["drive"]
        desc = (f"TEBD(dt={ob['spec']['dt']}, final_time={ob['final_time']!r} = dt*({drive['nrun']}+{drive['frac']}), "
                f"{len(run['opspec'])} operator(s)).run(evaluation_time={drive['ev']!r})")
        if "error" in run:
            return f"{desc} raised {run['error']}"
        d = self._oracle_gates(ob["spec"], run["exponents"], dims)
        if d:
            return (f"{desc}: TEBD.exponents: {d} [configured time_step_size {ob['spec']['dt']}, the object reports "
                    f"time_step_size={run['dt_reported']!r}, num_time_steps={run['num_time_steps']}]")
        if not run.get("caller_unchanged", True):
            return f"{desc}: the caller's initial state was modified"
        if run["structure"] != s0:
            return f"{desc}: identifiers / parent-child relations changed: {self._diff_structure(s0, run['structure'])}"
        if isinstance(run["psi"], str):
            return f"{desc}: the final state cannot be contracted: {run['psi']}"
        n = drive_steps(drive["nrun"], drive["frac"])
        ev = drive["ev"]
        self._stats["run:eval=" + ("1" if ev == 1 else "inf" if ev == "inf" else "divides-steps" if n % ev == 0 else
                                   "exceeds-steps" if ev > n else "does-not-divide-steps")] += 1
        self._stats["run:final_time " + ("multiple of dt" if drive["frac"] == 0 else "not a multiple of dt")] += 1
        self._stats["run:steps " + ("1-3" if n <= 3 else "4-8" if n <= 8 else "9-21")] += 1
        for k, (dc, dp) in run["bonds"].items():
            if dc != dp:
                return f"{desc}: bond above {k} has different dimensions at its two ends ({dc}, {dp})"
        if ob["svd"] is not None:
            mb = ob["svd"][0]
            touched = set()
            for e in exp:
                if len(e[1]) == 2:
                    a, b = e[1]
                    touched.add(a if s0["nodes"][a][0] == b else b)
            for k in touched:
                if not 1 <= run["bonds"][k][0] <= mb:
                    return f"{desc}: after the run the bond above {k} has dimension {run['bonds'][k][0]}, outside [1, {mb}]"
            return None
        refs = [np.array(ob["psi0"], dtype=complex)]
        with np.errstate(all="ignore"):
            for _ in range(n):
                psi = refs[-1]
                for e in exp:
                    if e[0] == "swap":
                        a, b = e[1]
                        if psi.shape[axis[a]] != psi.shape[axis[b]]:
                            return None
                        psi = np.swapaxes(psi, axis[a], axis[b])
                    else:
                        sites = list(e[1])
                        psi = apply_local(psi, [axis[s] for s in sites], e[2].reshape([dims[s] for s in sites] * 2))
                refs.append(psi)
        psi = refs[-1]
        if not np.all(np.isfinite(psi)) or float(np.max(np.abs(psi))) > 1e150:
            self._stats["run:reference-out-of-range"] += 1
            return None
        got = run["psi"]
        scale = max(1.0, float(np.max(np.abs(psi))))
        if got.shape == psi.shape and np.allclose(got, psi, rtol=1e-8, atol=1e-8 * scale):
            self._stats["run:state-validated"] += 1
            return None
        if got.shape != psi.shape:
            return f"{desc}: the final state has shape {got.shape}, the reference {psi.shape}"
        near = [k for k, r in enumerate(refs) if np.allclose(got, r, rtol=1e-8, atol=1e-8 * max(1.0, float(np.max(np.abs(r)))))]
        return (f"{desc}: the run consists of {n} steps but the final state differs from (ordered product of the dense gates)^{n} applied to the "
                f"initial state (max diff {float(np.max(np.abs(got - psi))):.3e}, scale {scale:.2e}"
                + (f"; it equals the reference after {near[0]} step(s)" if near else "") + ")")

    @staticmethod
    def _diff_structure(a, b):
        if a["root"] != b["root"]:
            return f"root {a['root']} -> {b['root']}"
        if sorted(a["nodes"]) != sorted(b["nodes"]):
            return f"identifiers {sorted(a['nodes'])} -> {sorted(b['nodes'])}"
        for k in a["nodes"]:
            if a["nodes"][k] != b["nodes"][k]:
                return f"{k}: (parent, children) {a['nodes'][k]} -> {b['nodes'][k]}"
        if not b.get("keys_match", True):
            return "tensor keys differ from node keys"
        return "?"

    def classify(self, case, what, known):
        # exactly one class: the tree contains a node literally named like the hard-coded temporary
        # identifier of the two-site gate, and a two-site gate is applied
        if case.get("kind") == "tebd" and case.get("contr_name") and KNOWN_CONTR in known:
            return KNOWN_CONTR
        return None

    def sample_repr(self, case):
        return case
