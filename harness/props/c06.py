"""C06 — one-site TDVP runs on every tree, conserves norm/energy and is reversible."""
from __future__ import annotations

import copy
import random
import traceback
from collections import Counter

import numpy as np

from lib import Prop, SkipCase
import util
from props import c05 as S
from props import c06w           # C06W hook: store-level tie (Evo/TDVPStore.v)
from props.c03 import isometry_defects, shapes_by_neighbour

TOL = 1e-8
KNOWN_REVERSAL = "C06-reversal-rank-deficient"


def negated(ham):
    return util.Hamiltonian([(-fr, g, tp) for fr, g, tp in ham.terms], ham.conversion_dictionary, ham.coeffs_mapping)


def expm_herm(H, t):
    """exp(-i H t) for Hermitian H by eigendecomposition (independent of scipy.linalg.expm and of the library)"""
    w, v = np.linalg.eigh((H + H.conj().T) / 2)
    return (v * np.exp(-1j * w * t)) @ v.conj().T


def propagator_herm(H):
    """t -> exp(-i H t) for Hermitian H, one eigendecomposition for all times (H in any units: eigh is scale-invariant)"""
    w, v = np.linalg.eigh((H + H.conj().T) / 2)
    return lambda t: (v * np.exp(-1j * w * t)) @ v.conj().T


def rel_dev(vec, ref, psi0):
    """largest deviation relative to the largest amplitude of the initial state (states of any norm)"""
    a = float(np.max(np.abs(psi0)))
    return float(np.max(np.abs(vec - ref))) / (a if a > 0 else 1.0)


def mode_of(name):
    from pytreenet.time_evolution.time_evolution import TimeEvoMode
    return {"expm": TimeEvoMode.EXPM, "default": TimeEvoMode.FASTEST, "RK45": TimeEvoMode.RK45, "RK23": TimeEvoMode.RK23,
            "DOP853": TimeEvoMode.DOP853, "BDF": TimeEvoMode.BDF}[name]


def make_measure(sysd, ref_shapes=None):
    ids, H = sysd["ids"], sysd["H"]

    def measure(algo, k):
        st = algo.state
        cp = copy.deepcopy(st)
        v = util.dense_vec(cp, ids)
        n2 = float(np.real(np.vdot(v, v)))
        e = complex(np.vdot(v, H @ v))
        c = st.orthogonality_center_id
        out = {"norm2": n2, "energy": [e.real, e.imag],
               "ids": sorted(st.nodes), "structure": {i: [p, sorted(ch)] for i, (p, ch) in util.structure_unordered(st).items()},
               "shapes": {i: [dict(a), list(b)] for i, (a, b) in shapes_by_neighbour(cp).items()},
               "centre": c, "bond_dims": [int(cp.nodes[i].shape[cp.nodes[i].neighbour_index(cp.nodes[i].parent)])
                                          for i in cp.nodes if not cp.nodes[i].is_root()]}
        out["iso_defect"] = isometry_defects(copy.deepcopy(st), c, True) if c is not None else None
        out["vec"] = v
        return out
    return measure


def strip_vecs(ob):
    for m in ob.get("measure", []):
        m.pop("vec", None)
    return ob


def structural_oracle(kind, ob, first_expected=True, check_shapes=True):
    """identifiers, parent/child relations, (shapes), canonical form at the (expected) centre"""
    ms = ob["measure"]
    m0 = ms[0]
    for k, m in enumerate(ms[1:], 1):
        at = m.get("at", f"step {k}")
        if m["ids"] != m0["ids"]:
            return f"{kind} {at}: node identifiers changed: {m['ids']}"
        if m["structure"] != m0["structure"]:
            return f"{kind} {at}: parent/child relations changed"
        if check_shapes and m["shapes"] != ob["initial_shapes"]:
            return f"{kind} {at}: tensor shapes changed"
        if first_expected and (m["centre"] is None or S.nid(m["centre"]) != ob["update_path"][0]):
            return f"{kind} {at}: recorded centre {m['centre']} is not update_path[0] = n{ob['update_path'][0]}"
        if m["centre"] is None:
            return f"{kind} {at}: no orthogonality centre recorded"
        if m["iso_defect"] is None or m["iso_defect"] > TOL:
            return f"{kind} {at}: not canonical at {m['centre']} (isometry defect {m['iso_defect']})"
    return None


def conservation_oracle(kind, ob, hscale, TOL=TOL):
    ms = ob["measure"]
    n0 = ms[0]["norm2"]
    e0 = complex(*ms[0]["energy"])
    for k, m in enumerate(ms[1:], 1):
        at = m.get("at", f"step {k}")
        if abs(m["norm2"] - n0) > TOL * n0:
            return f"{kind} {at}: norm^2 {m['norm2']!r} vs {n0!r} (relative drift {abs(m['norm2'] - n0) / n0:.2e})"
        e = complex(*m["energy"])
        if abs(e - e0) > TOL * max(abs(e0), n0 * hscale):
            return f"{kind} {at}: energy {e!r} vs {e0!r}"
    return None


def deficient_bonds(par, dims_list, psi0, bond_dims):
    """edges (child index) whose bond dimension exceeds the Schmidt rank of the initial state across that edge
    (sites in identifier order n0, n1, ...; bond_dims[i-1] is the dimension of the bond above node i)"""
    n = len(par)
    ch = util.children_of(par)

    def sub(i):
        out = [i]
        for c in ch[i]:
            out += sub(c)
        return out
    t = psi0.reshape(dims_list)
    bad = []
    for i in range(1, n):
        inside = sorted(sub(i))
        outside = [k for k in range(n) if k not in inside]
        m = np.transpose(t, inside + outside).reshape(int(np.prod([dims_list[k] for k in inside])), -1)
        sv = np.linalg.svd(m, compute_uv=False)
        rank = int(np.sum(sv > 1e-10 * sv[0])) if sv.size and sv[0] > 0 else 0
        if bond_dims[i - 1] > rank:
            bad.append([i, int(bond_dims[i - 1]), rank])
    return bad


# ---- runtime guard on the durations of the local updates ---------------------------------------------------------------------
class DurationGuard(Exception):
    pass


class duration_guard:
    """While active, a local update of the TDVP classes (their calls of time_evolve) over a time that exceeds TWICE the
    requested time step is aborted with DurationGuard (reported by the oracle as a step that raised, with the duration):
    every local update of the one-site / two-site schemes lasts dt/2 or dt.  It is a cost guard, not a judgement: a step that
    integrates over a wrong but comparable time runs to its end and is judged by the duration / conservation / exactness
    oracles; a duration that is off by orders of magnitude (||H|| |t| ~ 1e7 with the Hamiltonian in large units) would keep the
    action-of-the-exponential kernels busy for hours."""

    def __init__(self, dt):
        self.dt = abs(float(dt))
        self._undo = []

    def __enter__(self):
        import importlib
        lim = 2.0 * self.dt * (1 + 1e-9)
        dt = self.dt
        for name in ("onesitetdvp", "twositetdvp"):
            mod = importlib.import_module("pytreenet.time_evolution.tdvp_algorithms." + name)
            orig = getattr(mod, "time_evolve", None)
            if orig is None:
                continue

            def guarded(psi, hamiltonian, time_difference, *a, _orig=orig, **k):
                if not abs(time_difference) <= lim:
                    raise DurationGuard(f"a local update over the time {time_difference!r} was requested inside a time step of size "
                                        f"dt = {dt!r} (every local update of the scheme lasts dt/2 or dt); aborted by the harness")
                return _orig(psi, hamiltonian, time_difference, *a, **k)
            setattr(mod, "time_evolve", guarded)
            self._undo.append((mod, orig))
        return self

    def __exit__(self, *a):
        for mod, orig in self._undo:
            setattr(mod, "time_evolve", orig)
        self._undo = []
        return False


# ---- INITIAL STATES PRODUCED BY OTHER PUBLIC OPERATIONS (round 7) ---------------------------------------------------------------
QUERIES = ["path_from_to", "find_path_to_root", "distance_to_node", "linearise", "get_leaves", "nearest_neighbours",
           "find_subtree_of_node", "is_child_of"]


def _queries(state, rng, count, log):
    """read-only questions about the tree (they must not change anything observable)"""
    ids = list(state.nodes)
    for _ in range(count):
        q = rng.choice(QUERIES[:3] if rng.random() < 0.6 else QUERIES)
        a, b = rng.choice(ids), rng.choice(ids)
        try:
            if q in ("path_from_to", "is_child_of"):
                getattr(state, q)(a, b)
                log.append([q, a, b])
            elif q in ("linearise", "get_leaves", "nearest_neighbours"):
                getattr(state, q)()
                log.append([q])
            else:
                getattr(state, q)(a)
                log.append([q, a])
        except Exception as e:  # noqa  (a query that raises is recorded; the derived state is used all the same)
            log.append([q, a, b, f"raised {type(e).__name__}: {e}"])


def derive_state(ttns, prov, seed):
    """The SAME state (same tensors, same tree, same children orders) obtained by another sequence of public operations than
    util.build_ttns' root-first construction.  prov = {"grow": k, "queries": q, "copy": None | "deepcopy" | "pickle"}:
      * grow = k > 0 (trees whose top k nodes have a single child each): the subtree below is built first (its root carrying an
        extra open leg), read-only queries are made on it (paths, distances, ...), then the top nodes are attached one after the
        other with add_parent_to_root, with more queries in between; the root comes LAST in the node dictionary;
      * queries on the finished state; then optionally a deep copy / a pickle round trip of it.
    Returns (state, log).  The caller checks that the derived state represents the same vector."""
    import pickle
    rng = random.Random(seed)
    log = []
    T = copy.deepcopy(ttns)
    k = int(prov.get("grow", 0))
    nq = int(prov.get("queries", 0))
    chain = [T.root_id]
    while len(chain) <= k and len(T.nodes[chain[-1]].children) == 1:
        chain.append(T.nodes[chain[-1]].children[0])
    k = min(k, len(chain) - 1)
    if k > 0:
        new = type(T)()
        b = chain[k]
        new.add_root(util.Node(identifier=b), np.moveaxis(np.array(T.tensors[b]), 0, -1).copy())
        log.append(["add_root", b])
        todo = [b]
        while todo:
            x = todo.pop(0)
            for c in T.nodes[x].children:
                new.add_child_to_parent(util.Node(identifier=c), np.array(T.tensors[c]).copy(), 0, x, new.nodes[x].nneighbours())
                todo.append(c)
        _queries(new, rng, nq, log)
        for i in range(k - 1, -1, -1):
            a = chain[i]
            ta = np.array(T.tensors[a])
            if i > 0:
                ta = np.moveaxis(ta, 0, -1)          # (child, open, leg for the parent that comes next)
            root_leg = new.tensors[new.root_id].ndim - 1
            ta = ta.copy()
            new.add_parent_to_root(root_leg, util.Node(tensor=ta, identifier=a), ta, 0)      # (the node must be linked to its tensor here)
            log.append(["add_parent_to_root", a])
            if i > 0 or prov.get("queries_after_growth"):
                _queries(new, rng, max(1, nq // 2), log)
        T = new
    else:
        _queries(T, rng, nq, log)
    if prov.get("copy") == "deepcopy":
        T = copy.deepcopy(T)
        log.append(["deepcopy"])
    elif prov.get("copy") == "pickle":
        T = pickle.loads(pickle.dumps(T))
        log.append(["pickle round trip"])
    return T, log


def apply_provenance(case, sysd):
    """replaces sysd['ttns'] by the derived state of case['prov'] (checked to represent the same vector); returns the log"""
    before = util.dense_vec(copy.deepcopy(sysd["ttns"]), sysd["ids"])
    st, log = derive_state(sysd["ttns"], case["prov"], case["seed"] + 29)
    after = util.dense_vec(copy.deepcopy(st), sysd["ids"])
    if (util.structure(st) != util.structure(sysd["ttns"])
            or float(np.max(np.abs(after - before))) > 1e-12 * max(1.0, float(np.max(np.abs(before))))):
        raise S._Skip("derived state is not the state it was derived from (harness or C02 matter)")
    if sysd.get("ref") is sysd["ttns"]:
        sysd["ref"] = st
    sysd["ttns"] = st
    return log


def top_chain_length(par):
    """number of consecutive single-child nodes starting at the root (how many nodes add_parent_to_root can contribute)"""
    ch = util.children_of(par)
    k, x = 0, 0
    while len(ch[x]) == 1:
        k += 1
        x = ch[x][0]
    return k


def gen_provenance_cases(rng, count, kinds, fields):
    """trees with a single-child root (chains rooted at an end, single-child roots over branching nodes) grown upwards by
    1..k add_parent_to_root calls after path queries, and arbitrary trees after queries / deep copy / pickle round trip"""
    grow_pool = [p for p in S.SPECIAL_TREES + S.DEEP_TREES if top_chain_length(p) >= 1 and 3 <= len(p) <= 7]
    cases = []
    for j in range(count):
        if j % 4 != 3:
            par = rng.choice(grow_pool) if j % 2 == 0 else None
            while par is None:
                cand = S.random_tree(rng, rng.choice([3, 4, 5, 6]))
                if top_chain_length(cand) >= 1 and len(cand) - top_chain_length(cand) >= 1:
                    par = cand
            kmax = min(top_chain_length(par), len(par) - 1)
            prov = {"grow": rng.randint(1, kmax), "queries": rng.randint(1, 4), "copy": rng.choice([None, None, "deepcopy", "pickle"]),
                    "queries_after_growth": j % 8 == 4}
        else:
            par = S.random_tree(rng, rng.choice([2, 3, 4, 5, 6]))
            prov = {"grow": 0, "queries": rng.randint(1, 4), "copy": rng.choice(["deepcopy", "pickle"])}
        c = {"par": par, "kind": kinds[j % len(kinds)], "seed": rng.randrange(10 ** 9), "herm": True}
        c.update(fields(rng, j, par))
        c["prov"] = prov
        cases.append(c)
    return cases


# ---- EARLIER RUNS IN THE SAME PROCESS (round 7: configuration objects changed between calls) -------------------------------
PRELUDE_ROUTES = ["cfg", "algo", "class-cfg", "class-default"]


def run_prelude(case, sysd):
    """An EARLIER, unrelated run in the same process, made before the judged run of the case: another TDVP object with ITS
    OWN configuration object, which the caller changes IN PLACE (another solver for a quick exploratory run, recording
    switches) - before the construction (`cfg`, `class-cfg`) or on the finished object (`algo`, `class-default`).  Routes:
    the documented builder tdvp(state, H, dt, T, ops, TDVPConfig(order, sites)) with its default time-evolution configuration
    (`cfg`: cfg.time_evo_config edited; `algo`: algo.config edited after construction), the class with an explicit
    configuration object (`class-cfg`) or with no configuration argument at all (`class-default`: algo.config edited).
    The earlier run uses the caller's state / TTNO objects (or a copy of the state) and is NOT judged (an ODE solver is the
    caller's choice there); what IS judged is the run that follows, made with a FRESH configuration: nothing of the earlier
    object may leak into it.  Returns a short JSON-able record."""
    import importlib
    from pytreenet.time_evolution.tdvp_algorithms import FirstOrderOneSiteTDVP, SecondOrderOneSiteTDVP, SecondOrderTwoSiteTDVP
    from pytreenet.time_evolution.tdvp_algorithms.tdvp_algorithm import TDVPConfig as AlgoConfig
    pre = case["prelude"]
    mode = mode_of(pre["mode"])
    state = sysd["ttns"] if pre.get("same_state") else copy.deepcopy(sysd["ttns"])
    dt = sysd["dt"]
    order, sites = pre.get("order", 2), pre.get("sites", 1)
    rec = {"route": pre["route"]}

    def edit(cfg):
        cfg.time_evo_mode = mode
        if pre.get("record_bond_dim"):
            cfg.record_bond_dim = True
    try:
        if pre["route"] in ("cfg", "algo"):
            tb = importlib.import_module("pytreenet.time_evolution.tdvp")
            kw = {"svd_params": util.no_trunc()} if (sites == 2 and pre.get("svd", True)) else {}
            cfg = tb.TDVPConfig(order=order, sites=sites, **kw)
            if pre["route"] == "cfg":
                edit(cfg.time_evo_config)
            algo = tb.tdvp(state, sysd["ttno"], dt, dt * 2, [], cfg)
            if pre["route"] == "algo":
                edit(algo.config)
        else:
            cls = {(1, 1): FirstOrderOneSiteTDVP, (2, 1): SecondOrderOneSiteTDVP, (2, 2): SecondOrderTwoSiteTDVP}[(order, sites)]
            args = [state, sysd["ttno"], dt, dt * 2, []] + ([util.no_trunc()] if sites == 2 else [])
            if pre["route"] == "class-cfg":
                cfg = AlgoConfig()
                edit(cfg)
                algo = cls(*args, cfg)
            else:
                algo = cls(*args)
                edit(algo.config)
        for _ in range(pre.get("steps", 1)):
            algo.run_one_time_step()
        rec["mode_used"] = str(algo.config.time_evo_mode)
    except Exception as e:  # noqa   (not judged: recorded for the evidence / replays)
        rec["exception"] = f"{type(e).__name__}: {e}"
    return rec


def gen_prelude_cases(rng, count, kinds, fields):
    """judged runs through the builder with a FRESH default configuration (and, in turn, the class with an explicit
    configuration) that follow an earlier run whose configuration object was changed in place; `fields(rng, j)` supplies
    the property-specific fields of the judged run (saturated two-node systems / small trees)"""
    cases = []
    for j in range(count):
        c = {"kind": kinds[j % len(kinds)], "seed": rng.randrange(10 ** 9), "herm": True}
        c.update(fields(rng, j))
        c["builder"] = j % 4 != 3                      # three of four judged runs use a fresh default TDVPConfig()
        if c["builder"]:
            c["mode"] = "default"
        c["prelude"] = {"route": PRELUDE_ROUTES[(j // len(kinds)) % len(PRELUDE_ROUTES)], "mode": rng.choice(["RK23", "RK45", "RK23", "BDF"]),
                        "order": rng.choice([1, 2]), "sites": 1 if j % 3 else 2, "steps": rng.choice([1, 2]),
                        "same_state": j % 2 == 0, "record_bond_dim": j % 5 == 0}
        if c["prelude"]["sites"] == 2:
            c["prelude"]["order"] = 2
        cases.append(c)
    return cases


def _run_case(case):
    try:
        sysd = S.build_system(case)
        prov = apply_provenance(case, sysd) if case.get("prov") else None      # initial state produced by other public operations
    except S._Skip as s:
        return {"skip": str(s)}
    except Exception as e:  # noqa
        return {"exception": f"{type(e).__name__}: {e}", "tb": traceback.format_exc()[-1500:], "construct": True}
    with duration_guard(sysd["dt"]):
        ob = _run_built(case, sysd)
    if prov is not None and isinstance(ob, dict):
        ob["prov"] = prov
    return ob


def _run_built(case, sysd):
    try:
        kind = case["kind"]
        mode = mode_of(case.get("mode", "expm"))
        sub = case["sub"]
        measure = make_measure(sysd)
        init_shapes = {i: [dict(a), list(b)] for i, (a, b) in shapes_by_neighbour(copy.deepcopy(sysd["ttns"])).items()}
        psi0 = util.dense_vec(copy.deepcopy(sysd["ttns"]), sysd["ids"])
        nsteps = case.get("nsteps", 1)
        # (after psi0 was taken: an earlier run that changed the caller's state shows up as a changed initial state)
        pre = run_prelude(case, sysd) if case.get("prelude") else None      # an earlier run in this process (not judged)
        ob, algo = S.record_run(kind, sysd, nsteps, check_heff=False, mode=mode, after_step=measure, **S.hist_kwargs(case))
        ob["initial_shapes"] = init_shapes
        if pre is not None:
            ob["prelude"] = pre
        # --- C06W hook: private run of the same class for the store-level tie (structure after constructor / steps) ---
        if c06w.sampled(case, 0):
            ob["w"] = c06w.real_side(case, sysd, kind, mode, S.make_algo, S.rtree_json)
        # --- end C06W hook ---
        ob["hscale"] = float(np.max(np.abs(sysd["H"])))
        # (a state that was multiplied by 2^sexp > 1 is judged in units of that factor: the same state, the same tolerance)
        ob["psi0_dev"] = (float(np.max(np.abs(ob["measure"][0]["vec"] - psi0))) / max(1.0, 2.0 ** case.get("sexp", 0))
                          if ob["measure"] else None)
        if sub == "reverse":
            ids = sysd["ids"]
            bd = {S.nid(i): sysd["ttns"].nodes[i].shape[sysd["ttns"].nodes[i].neighbour_index(sysd["ttns"].nodes[i].parent)]
                  for i in ids if not sysd["ttns"].nodes[i].is_root()}
            ob["deficient"] = deficient_bonds(case["par"], [sysd["dims"][i] for i in ids], psi0, [bd[k] for k in range(1, len(ids))])
        if "exception" not in ob:
            if sub == "saturated":
                devs = []
                prop = propagator_herm(sysd["H"])
                for k, m in enumerate(ob["measure"]):
                    ref = prop(m.get("t", k) * sysd["dt"]) @ psi0      # dt = the REQUESTED time step
                    devs.append(rel_dev(m["vec"], ref, psi0))
                ob["exact_dev"] = devs
            if sub == "reverse":
                # same object, same sweep: replace H by -H, rebuild the environment cache, step again
                from pytreenet.ttno.ttno_class import TTNO
                neg = negated(sysd["ham"])
                ttno_neg = TTNO.from_hamiltonian(copy.deepcopy(neg), sysd["ref"])
                state1 = copy.deepcopy(algo.state)
                algo.hamiltonian = ttno_neg
                algo.partial_tree_cache = algo._init_partial_tree_cache()
                for _ in range(nsteps):
                    algo.run_one_time_step()
                v = util.dense_vec(copy.deepcopy(algo.state), sysd["ids"])
                ob["reverse_dev"] = rel_dev(v, psi0, psi0)
                # a fresh object on the evolved state (only comparable when it sweeps in the same order)
                sys2 = dict(sysd, ttns=state1, ttno=ttno_neg, ham=neg)
                algo2 = S.make_algo(kind, sys2, mode=mode, nsteps=nsteps)
                if list(algo2.update_path) == list(algo.update_path):
                    for _ in range(nsteps):
                        algo2.run_one_time_step()
                    v2 = util.dense_vec(copy.deepcopy(algo2.state), sysd["ids"])
                    ob["reverse_dev_fresh"] = rel_dev(v2, psi0, psi0)
                else:
                    # A sweep permutes the children orders of the state, so a NEW object built on the evolved state may sweep in
                    # another order (seen on trees with several side branches below one node).  Then step(-H) of the new object
                    # is the inverse of ITS OWN step(H), a different member of the scheme's family (another ordering of the
                    # symmetric splitting), and it misses the initial state by the splitting error O(dt^3) although every bond is
                    # at full rank.  Recorded for the evidence / replays, NOT judged: reversibility is a statement about one
                    # integrator map, i.e. one sweep order (the same object, or a new object that sweeps in the same order).
                    for _ in range(nsteps):
                        algo2.run_one_time_step()
                    v2 = util.dense_vec(copy.deepcopy(algo2.state), sysd["ids"])
                    ob["reverse_dev_fresh_other_path"] = rel_dev(v2, psi0, psi0)
                    ob["fresh_update_path"] = [S.nid(x) for x in algo2.update_path]
        return strip_vecs(ob)
    except S._Skip as s:
        return {"skip": str(s)}
    except Exception as e:  # noqa
        return {"exception": f"{type(e).__name__}: {e}", "tb": traceback.format_exc()[-1500:], "construct": True}


class C06(Prop):
    id = "C06"
    title = "one-site TDVP: runs everywhere, conserves, reversible"
    design_ref = "DESIGN.md section 5 / C06"
    rule = ("every rooted ordered tree with 2..4 (thorough: 2..6) nodes plus the fixed list (single-child roots, stars, chains, depth ties) and random "
            "trees up to 7 nodes, both one-site classes, Hermitian random Hamiltonians, unnormalised random states with shuffled legs and "
            "bond dimensions 1..3 (zero-padded bonds included), modes EXPM and the default, 1..3 steps; sub-kinds: run (structure, canonical "
            "form, conservation), reverse (second order: step(H) then step(-H)), saturated (two nodes, bond = both physical dimensions, "
            "against exp(-iH k dt) by eigendecomposition). Configurations: final times the time step does not divide (0.66 .. 7.14 dt) for "
            "saturated systems (by hand and through the public run() with a recorded observable; reference = the REQUESTED dt) and every "
            "seventh tree case. Histories on one object (trees 4..9 nodes): steps / reset_to_initial_state() / steps, evaluate_operators() "
            "between steps, run(): structure, canonical form, norm and energy after every action. Units / scales: the Hamiltonian multiplied by "
            "2^hexp, hexp in [-44, 24] in four bands (energies 1e-13 .. 1e7) with the time step divided by the same power of two (time steps "
            "1e13 .. 1e-7, H dt as for the unscaled system), every fifth state rescaled by 2^-30 .. 2^16: every third such case a saturated "
            "two-node system against exp(-iH k dt) (EXPM and default mode), the others run / reverse on trees with 2..6 nodes; deviations of "
            "states are judged relative to max|psi0|, energies relative to max|H|. Earlier runs in the same process: the judged run (builder "
            "with a fresh default TDVPConfig(), or the class with an explicit configuration; saturated two-node systems and trees with 2..5 nodes) "
            "follows another TDVP object (builder / class, order 1..2, one- or two-site) whose own configuration object was changed in place "
            "(time_evo_mode RK23 / RK45 / BDF, record_bond_dim) before or after its construction, on the caller's state object or a copy. "
            "Initial states produced by other public operations: the tree grown upwards (subtree first, then 1..k add_parent_to_root calls, root last "
            "in the node dictionary) with read-only queries (path_from_to, find_path_to_root, distance_to_node, ...) before / between the growth "
            "steps, or queried and deep-copied / pickled. A local update over more than 2 dt is aborted and reported (cost guard). "
            "non-trivial = >= 2 nodes; distinct by content")
    clauses = [
        ("F", "both traces are defined on every tree with unique ids (second order: >= 2 nodes) — the step raises no IndexError-type failure "
              "(C06_first_order_runs, C06_second_order_runs); the structural assertions of the first-order class (first node is a leaf, last node has "
              "<= 1 neighbour, incl. single-child roots) hold on every tree (C06_trace_no_failing_assert); every node is updated for exactly one step"),
        ("F", "for every tree >= 2 nodes (C06_schedule_ok; bounded companion kept): all orthogonality-centre assertions hold, every split/link is on an edge, every block read is fresh, and "
              "each of two consecutive steps ends with the centre on update_path[0] (C06_schedule_ok_bounded_9)"),
        ("F", "on every tree the second-order (object, signed factor) sequence is a palindrome (C06_second_order_palindrome: path symmetry, "
              "the last two nodes of the update path are adjacent — C06_turning_point_on_edge), hence the step with -H runs the inverse updates in reverse order"),
        ("O", "Layer A (abstract matrix algebra): E^+E = 1, H = H^+ => K = E^+HE Hermitian; a unitary commuting with K preserves <psi|psi> and "
              "<psi|H|psi> of psi = E A (C06_projected_hamiltonian_hermitian, C06_local_update_conserves); contracts: exp(-+iKt) unitary and commuting "
              "with K (expm kernel), E isometry (C03 / LAPACK QR)"),
        ("F", "store level (Evo/TDVPStore.v: the trace interpreted as the store operations of the classes - read + raw replacement of the site / link "
              "tensor, split_node_qr(KEEP) with the link identifier, contract_nodes(link, next), move_orthogonalization_center(KEEP)): for EVERY "
              "well-formed tree store (wfb, >= 2 nodes, any child order compatible with the schedule's tree) whose recorded centre is update_path[0] "
              "and which is canonical there (iso_check), both steps SUCCEED, keep the store invariant, the node identifiers, every parent pointer, "
              "every children set and the root (same_tree), end with the recorded centre on update_path[0] and canonical there (every other node a "
              "QR-Q atom with its bond toward the centre): C06_first_order_step_on_store, C06_second_order_step_on_store, any number of steps "
              "C06_steps_on_store, with the tree read off the store C06_*_step_own_tree / C06_tree_of_store; one link update C06_link_update_on_store; "
              "tensor shapes (KEEP mode): every node keeps, toward every neighbour, its dimension and keeps its open-leg dimensions in order "
              "(C06_first_order_step_keeps_shapes, C06_second_order_step_keeps_shapes: each centre move registers one fresh wire of the dimension "
              "of the wire it replaces - keep_single_leg_dim - and every other leg keeps its wire)"),
        ("I", "per explored instance: schedule checker + duration checker evaluated on the exactly matching model trace; store-level tie (c06w): the "
              "build programme of the initial state is accepted, tree_of = the live tree, tdvp_init / every model step is defined and iso_check holds "
              "after the constructor and after every step (hypotheses and conclusions of the store-level theorems on this instance)"),
        ("V", "numerical isometry check of the real tensors (QR kernel contract) and shapes of the real tensors per neighbour (oracle; the model "
              "reproduces the raw shapes exactly per instance), norm and energy drift < 1e-8, "
              "reversibility of the second-order step as a statement about states, saturated two-node exactness: numerical oracle"),
    ]
    trusted_base = ["store-level tie: harness/props/c06w.py + harness/wmodel.py (snapshot of node dict order, parents, children order, leg permutations, "
                    "raw shapes, tensor dict order, root, centre compared EXACTLY with tdvp_init / tdvp1_step_t / tdvp2_step_t after the constructor and "
                    "after up to two steps); the evolved tensors are opaque atoms of the model",
                    "np.linalg.eigh for the reference propagator; einsum for dense states; kron for the dense Hamiltonian",
                    "expm / Chebyshev kernels of the library are exercised, not modelled (C20)"]
    assumptions = ["Hermitian Hamiltonian for the conservation/reversibility clauses; exponential-based modes (EXPM, default = Chebyshev)",
                   "time step chosen per case as a power of two with ||H|| dt in (1/2, 1] (times dtscale) so that the expm kernels work at nominal accuracy "
                   "(in the scale family: the same H dt, with H and 1/dt multiplied by the same power of two)",
                   "reversibility of states is exact (1e-15 observed) when every bond is at its full Schmidt rank; on zero-padded / rank-deficient bonds the "
                   "sweep is reversible only up to O(dt^3) (known finding C06-reversal-rank-deficient)",
                   "reversibility is judged for ONE sweep order: the same object with H replaced by -H, and a new object on the evolved state when it "
                   "finds the same update path; a sweep permutes children orders, so a new object may sweep in another order (several side "
                   "branches below one node) and then misses by the splitting error O(dt^3): recorded (reverse_dev_fresh_other_path), not judged"]

    def generate(self, ctx, stream, budget_scale=1):
        rng = ctx.rng(stream)
        cases = []
        small = [p for n in range(2, (7 if ctx.thorough() else 5)) for p in util.all_parents(n)]
        trees = small + [p for p in S.SPECIAL_TREES if len(p) > (6 if ctx.thorough() else 4)]
        nrand = ctx.scale(40, 1200) * budget_scale
        for _ in range(nrand):
            trees.append(S.random_tree(rng, rng.choice([3, 4, 5, 6, 7])))
        if stream != "main":
            rng.shuffle(trees)
        j = 0
        for par in trees:
            for kind in ("tdvp1", "tdvp2"):
                j += 1
                sub = "reverse" if (kind == "tdvp2" and j % 3 == 0) else "run"
                cases.append({"par": par, "kind": kind, "sub": sub, "seed": rng.randrange(10 ** 9), "herm": True,
                              "coeffs": j % 4 == 0, "ttno_shuffle": j % 2 == 0, "mode": "default" if j % 5 == 0 else "expm",
                              "nsteps": rng.choice([1, 2, 3]) if len(par) <= 5 else 1, "nterms": rng.choice([1, 2, 3])})
                if j % 10 == 5:
                    # default mode through the documented builder tdvp(...) with its default configuration
                    cases[-1]["builder"] = True
        for rep in range(ctx.scale(8, 60) * budget_scale):
            d = rng.choice([2, 3])
            for kind in ("tdvp1", "tdvp2"):
                cases.append({"par": [None, 0], "kind": kind, "sub": "saturated", "seed": rng.randrange(10 ** 9), "herm": True,
                              "coeffs": rep % 2 == 0, "phys": [d, d], "bond": {1: d}, "mode": "expm", "nsteps": rng.choice([1, 2]),
                              "nterms": rng.choice([2, 3, 4])})
        # CONFIGURATIONS ("all step sizes"): the final time handed to the constructor is not a multiple of the time step (or is
        # smaller than it); the reference propagator and the durations use the time step the caller asked for.  Saturated
        # two-node systems (exactness against exp(-iH k dt)), by hand and through the public run(), and every seventh tree case
        cfg = []
        for rep in range(ctx.scale(6, 60) * budget_scale):
            d = rng.choice([2, 3])
            for kind in ("tdvp1", "tdvp2"):
                c = {"par": [None, 0], "kind": kind, "sub": "saturated", "seed": rng.randrange(10 ** 9), "herm": True,
                     "coeffs": rep % 2 == 0, "phys": [d, d], "bond": {1: d}, "mode": "default" if rep % 3 == 2 else "expm",
                     "nsteps": rng.choice([1, 2, 3]), "nterms": rng.choice([2, 3, 4]), "tratio": rng.choice(S.TRATIOS)}
                if rep % 2 == 1:
                    c["tratio"] = rng.choice([1.37, 2.5, 0.66])
                    c["history"] = ["run"]
                    c["hist"] = "run"
                    c["ops"] = [[[rng.choice([0, 1])], rng.randrange(10 ** 6)]]
                cfg.append(c)
        for j, c in enumerate(cases):
            if j % 7 == 3 and "tratio" not in c:
                c["tratio"] = rng.choice(S.TRATIOS)
        cases = cfg + cases          # (first, so that a violation is reported on the clause of the text it belongs to: exactness)
        # HISTORIES: run / reset / run on one object, observables recorded between the steps (evaluate_operators, run())

        def base(rng, j, par):
            return {"sub": "run", "herm": True, "coeffs": j % 4 == 0, "ttno_shuffle": j % 2 == 0,
                    "mode": "default" if j % 5 == 0 else "expm", "nterms": rng.choice([1, 2, 3])}
        cases += S.gen_history_cases(rng, ctx.scale(12, 300) * budget_scale, ["tdvp1", "tdvp2"], base)
        # UNITS / SCALES ("all Hermitian Hamiltonians, all step sizes, all normalised or unnormalised initial states"): the
        # Hamiltonian in units 2^-44 .. 2^24 with the time step scaled inversely (H dt as for the unscaled system), every fifth
        # state rescaled by 2^-30 .. 2^16; every third case a saturated two-node system against exp(-iH k dt), the others
        # run / reverse on small trees.  All judgements are relative (norm, energy against max|H|, amplitudes against max|psi0|)

        def sbase(rng, j, par):
            return {"sub": "reverse" if j % 4 == 1 else "run", "herm": True, "coeffs": j % 4 == 0, "ttno_shuffle": j % 2 == 0,
                    "mode": "default" if j % 5 == 0 else "expm", "nterms": rng.choice([1, 2, 3]),
                    "nsteps": rng.choice([1, 2]) if len(par) <= 5 else 1}

        def ssat(rng, j):
            d = rng.choice([2, 3])
            return {"par": [None, 0], "sub": "saturated", "phys": [d, d], "bond": {1: d}, "mode": "default" if j % 2 else "expm",
                    "nsteps": rng.choice([1, 2]), "nterms": rng.choice([2, 3, 4]), "coeffs": j % 4 == 0}
        sc = S.gen_scaled_cases(rng, ctx.scale(24, 480) * budget_scale, ["tdvp1", "tdvp2"], sbase, saturated=ssat)
        for c in sc:
            if c["kind"] == "tdvp1" and c["sub"] == "reverse":
                c["sub"] = "run"
        sat = [c for c in sc if c["sub"] == "saturated"]
        cases = sat + cases + [c for c in sc if c["sub"] != "saturated"]      # (exactness clauses first, see above)
        # EARLIER RUNS IN THE SAME PROCESS ("configurations", "histories"): the judged run is built with a FRESH configuration
        # (the builder's default TDVPConfig(), or the class with an explicit one) after another TDVP object was run whose own
        # configuration object had been changed in place (ODE solver, recording switch): see run_prelude.  Half of them saturated
        # two-node systems (exactness), the others conservation runs on trees with 2..5 nodes.  They go FIRST: the workers of
        # the pool are reused, so a library that lets the earlier object leak into later ones is reported on the case that
        # contains the whole history (its replay is self-contained)

        def pfields(rng, j):
            if j % 2 == 0:
                d = rng.choice([2, 3])
                return {"par": [None, 0], "sub": "saturated", "phys": [d, d], "bond": {1: d}, "mode": "expm",
                        "nsteps": rng.choice([1, 2]), "nterms": rng.choice([2, 3, 4]), "coeffs": j % 4 == 0}
            par = rng.choice([p for p in S.SPECIAL_TREES if len(p) <= 5])
            return {"par": par, "sub": "run", "coeffs": j % 4 == 1, "ttno_shuffle": j % 3 == 0, "mode": "expm",
                    "nsteps": rng.choice([1, 2]), "nterms": rng.choice([1, 2, 3])}
        # INITIAL STATES PRODUCED BY OTHER PUBLIC OPERATIONS ("all trees ... all root positions, all initial states"): the tree grown
        # upwards by add_parent_to_root after read-only queries, or queried and deep-copied / pickled (derive_state)

        def prfields(rng, j, par):
            return {"sub": "reverse" if j % 4 == 1 else "run", "coeffs": j % 4 == 0, "ttno_shuffle": j % 2 == 0,
                    "mode": "default" if j % 5 == 0 else "expm", "nterms": rng.choice([1, 2, 3]), "nsteps": rng.choice([1, 2]) if len(par) <= 5 else 1}
        cases += gen_provenance_cases(rng, ctx.scale(8, 120) * budget_scale, ["tdvp1", "tdvp2"], prfields)
        cases = gen_prelude_cases(rng, ctx.scale(8, 96) * budget_scale, ["tdvp1", "tdvp2"], pfields) + cases
        return cases

    def nontrivial(self, case):
        return len(case["par"]) >= 2

    def distribution(self, cases):
        c = Counter()
        for x in cases:
            c[f"nodes={len(x['par'])}"] += 1
            c[x["kind"] + ":" + x["sub"]] += 1
            c["mode=" + x.get("mode", "expm")] += 1
            if x["par"][1:].count(0) == 1:
                c["single-child-root"] += 1
            c["history=" + x.get("hist", "steps")] += 1
            if x.get("tratio") is not None and x["tratio"] != int(x["tratio"]):
                c["final-time-not-multiple-of-dt"] += 1
            if x.get("prov"):
                c["initial-state:grown-by-%d-add_parent_to_root" % x["prov"]["grow"] if x["prov"].get("grow") else "initial-state:queried"] += 1
                if x["prov"].get("copy"):
                    c["initial-state:" + x["prov"]["copy"]] += 1
            if x.get("prelude"):
                c["after-earlier-run:" + x["prelude"]["route"] + ("/fresh-default-config" if x.get("builder") else "/explicit-config")] += 1
            S.scale_distribution(c, x)
        return dict(c)

    def impl(self, ctx, cases):
        obs = S._pool_map(_run_case, cases)
        return [SkipCase(o["skip"]) if "skip" in o else o for o in obs]

    def model(self, ctx, cases, obs):
        # --- C06W hook: tdvp_init / tdvp1_step_t / tdvp2_step_t evaluated on the model store of the initial state ---
        self._w = c06w.run(ctx, cases, obs)
        # --- end C06W hook ---
        return S.eval_models(ctx, cases, obs)

    def compare(self, case, ob, mo):
        S.tally_instance(self, mo)
        if ob.get("construct"):
            return f"implementation raised in the constructor: {ob['exception']}"
        d = S.compare_traces(case, ob, mo)
        if d is None and ob.get("w_tie"):          # C06W hook
            return ob["w_tie"]
        return d

    def extra_obligations(self, ctx):
        n, ok, fails = self.__dict__.get("_inst", [0, 0, []])
        wn, wok, wfails = self.__dict__.get("_w", (0, 0, []))      # C06W hook: per-instance store-level obligations
        return n + wn, ok + wok, list(fails) + list(wfails)

    def oracle(self, case, ob):
        kind = case["kind"]
        if "exception" in ob:
            return f"{kind} on tree {case['par']} raised {ob['exception']}"
        if case["sub"] == "saturated":
            for k, dev in enumerate(ob["exact_dev"]):
                if dev > TOL:
                    m = ob["measure"][k]
                    return (f"{kind} saturated two-node: state at '{m.get('at', f'step {k}')}' differs from exp(-iH {m.get('t', k)} dt) psi "
                            f"by {dev:.2e} (requested time step dt = {ob['dt']!r}, final time = {case.get('tratio', case.get('nsteps', 1))} dt; "
                            f"the object reports time_step_size = {ob.get('reported_dt')!r})")
        if ob["problems"]:
            return f"{kind}: {ob['problems'][0]}"
        if ob["psi0_dev"] is None or ob["psi0_dev"] > TOL:
            return f"{kind}: the constructor changed the represented state by {ob['psi0_dev']}"
        d = structural_oracle(kind, ob)
        if d:
            return d
        d = conservation_oracle(kind, ob, ob["hscale"])
        if d:
            return d
        for k, st in enumerate(ob["steps"]):
            d = S.observed_durations(case["par"], kind, st)
            if d:
                return f"{kind} step {k + 1}: {d}"
        if case["sub"] == "saturated":
            for k, dev in enumerate(ob["exact_dev"]):
                if dev > TOL:
                    return f"{kind} saturated two-node: state after {k} steps differs from exp(-iH k dt) psi by {dev:.2e}"
        if case["sub"] == "reverse":
            dev = max(ob["reverse_dev"], ob.get("reverse_dev_fresh", 0.0))
            if dev > TOL:
                if ob.get("deficient") and dev < 1e-2:
                    return (f"{kind}: step(H) then step(-H) misses the initial state by {dev:.2e} on a state with rank-deficient bonds "
                            f"[node, bond dimension, Schmidt rank] = {ob['deficient']} (tree {case['par']}, dt = {ob['dt']})")
                return f"{kind}: step(H) then step(-H) misses the initial state by {dev:.2e} (every bond at its full Schmidt rank: {not ob.get('deficient')})"
        return None

    def classify(self, case, what, known):
        # the one recorded class: O(dt^3) irreversibility of the second-order sweep on states whose bond dimension exceeds
        # the Schmidt rank (zero-padded / rank-deficient bonds); every other violation stays a violation
        if "misses the initial state" in what and "rank-deficient bonds" in what and KNOWN_REVERSAL in known:
            return KNOWN_REVERSAL
        return None
