"""C05 at the diagram level (Layer W): the effective Hamiltonians handed to `time_evolve` against the Gallina
models Contr/Heff.v (site, link) and Contr/Heff2.v (two-site).

Nothing is registered here.  harness/props/c05.py calls
  * `capture(rec, algo, cp, x, heff)` from its time_evolve observer (sampled SITE, LINK and TWO-SITE calls): a snapshot of the
    CURRENT state (deep copy, already made by the observer) and of the TTNO as model build programs
    (`ops_from_ttn`), the logical tensors as atoms, and the matrix the library built;
  * `run(ctx, cases, obs)` / `heff_instances(ctx, recs)` from `model`: per snapshot
      - the stores are rebuilt in Coq (`run`) and every build operation must be accepted,
      - `wf_heffb` (hypothesis of C05_heff_site_checked) and `heff_ok` (C05_heff_ok_sound: the result of `heff_site`
        IS the <psi|H|psi> network with the target's ket tensor and its twin removed, legs in the order of the updated
        tensor) are evaluated by vm_compute -> per-instance obligations (`wf_linkb` / `link_ok` for link calls;
        `wf_twositeb` / `heff_two_ok` of Contr/Heff2.v for two-site calls: the state snapshot already holds the two-site
        node "TwoSite_<a>_contr_<b>", the TTNO still has a and b - exactly what _contract_all_except_two_nodes reads),
      - the model diagram is evaluated with einsum on the captured atoms and compared with the matrix the library
        handed to time_evolve (1e-9 relative): a value-level tie, which also detects stale cache blocks because the
        model's blocks are always the fresh ones.
"""
from __future__ import annotations

import copy

import numpy as np

from lib import coq_eval, coq_nat, coq_list
import wmodel
from wmodel import IdMap

WOFF = 2000     # wire offset of the conjugated copy
AOFF = 200      # atom offset of the conjugated copy
OOFF = 1000     # wire offset of the operator network
OAOFF = 100     # atom offset of the operator network
TOL = 1e-9

IMPORTS = ("From Coq Require Import List Arith NArith. From PTN Require Import TTN.Store Contr.Blocks Contr.Closed Contr.Heff Contr.Heff2. "
           "Import ListNotations.")


# ---- snapshots (run inside the worker that executes the real code) ------------------------------------------------
def ops_from_ttn(ttn):
    """AddRoot/AddChild programme that rebuilds the structure of `ttn` in the store model: identifiers, parent,
    children ORDER and logical leg order (parent, children..., open legs).  Atom k of the rebuilt store is the logical
    tensor of the k-th added node.  `ttn` must be a private copy: reading `ttn.tensors[...]` applies pending leg
    permutations in place."""
    ops, tensors = [], []

    def rec(x):
        t = ttn.tensors[x]                  # logical order; resets the node's permutation (on the copy)
        node = ttn.nodes[x]
        shape = [int(d) for d in t.shape]
        if node.is_root():
            ops.append(["add_root", x, shape])
        else:
            p = node.parent
            pn = ttn.nodes[p]
            pleg = (0 if pn.is_root() else 1) + list(pn.children).index(x)     # always the parent's first open leg
            ops.append(["add_child", x, shape, 0, p, pleg])
        tensors.append(np.array(t))
        for c in list(node.children):
            rec(c)
    rec(ttn.root_id)
    return ops, tensors


def capture(rec, algo, cp, x, heff):
    """called by the Recorder of c05.py at a time_evolve call on the tensor of node `x` of the state copy `cp`"""
    st = rec.__dict__.setdefault("_wstate", {"site": 0, "link": 0, "two": 0, "nsite": 0, "nlink": 0, "ntwo": 0})
    kind = "two" if x.startswith("TwoSite_") else ("link" if x.startswith("link_") else "site")
    k = st[kind]
    st[kind] += 1
    limit = max(1, rec.capture_w // 2) if kind == "link" else rec.capture_w
    if st["n" + kind] >= limit or (k + rec.wseed) % 2 != 0:
        return
    st["n" + kind] += 1
    try:
        kops, ktens = ops_from_ttn(cp)                       # cp is the observer's deep copy: touched freely
        oops, otens = ops_from_ttn(copy.deepcopy(algo.hamiltonian))
        r = {"kind": kind, "call": len(rec.log) - 1, "kops": kops, "ktens": ktens, "oops": oops, "otens": otens,
             "heff": np.array(heff), "shape": [int(d) for d in np.asarray(cp.tensors[x]).shape]}
        if kind == "site":
            r["n"] = x
        elif kind == "link":
            a, b = x[len("link_"):].split("_with_")
            r.update({"a": a, "b": b, "l": x})
        else:
            # create_two_site_id(target, next): target = a is the node the update started from, next = b
            ids = list(algo.hamiltonian.nodes)
            ab = [(a, b) for a in ids for b in ids if a != b and x == "TwoSite_" + a + "_contr_" + b]
            if len(ab) != 1:
                raise ValueError(f"cannot read the pair off the identifier {x!r}")
            r.update({"a": ab[0][0], "b": ab[0][1], "l": x})
        rec.wrecs.append(r)
    except Exception as e:  # noqa
        rec.wrecs.append({"kind": kind, "call": len(rec.log) - 1, "error": f"{type(e).__name__}: {e}"})


# ---- model side --------------------------------------------------------------------------------------------------
def _expr(r):
    idm = IdMap()
    kl = coq_list([("(" + wmodel.coq_op(o, idm) + ")") for o in r["kops"]])
    ol = coq_list([("(" + wmodel.coq_op(o, idm) + ")") for o in r["oops"]])
    offs = f"{coq_nat(OOFF)} {coq_nat(OAOFF)} {coq_nat(WOFF)} {coq_nat(AOFF)}"
    if r["kind"] == "site":
        return f"heff_case {kl} {ol} {offs} {coq_nat(idm(r['n']))}"
    fn = "link_case" if r["kind"] == "link" else "heff_two_case"
    return f"{fn} {kl} {ol} {offs} {coq_nat(idm(r['a']))} {coq_nat(idm(r['b']))} {coq_nat(idm(r['l']))}"


def eval_open(summary, tables):
    """numeric value of a diagram with open axes: atoms with their wire tables, glued wires identified, bound wires
    summed; result axes in the order of `axes`"""
    axes, atoms, bnd, glue = summary
    parent = {}

    def find(w):
        parent.setdefault(w, w)
        while parent[w] != w:
            parent[w] = parent[parent[w]]
            w = parent[w]
        return w
    for a, b in glue:
        parent[find(a)] = find(b)
    lab = {}

    def L(w):
        r = find(w)
        if r not in lab:
            lab[r] = len(lab)
        return lab[r]
    args = []
    for a in atoms:
        val, ws = tables[a]
        if val.ndim != len(ws):
            raise ValueError(f"atom {a}: {val.ndim} axes, wire table has {len(ws)}")
        args += [val, [L(w) for w in ws]]
    out = [L(w) for w in axes]
    if len(lab) > 52 or len(set(out)) != len(out):
        return None
    return np.einsum(*args, out, optimize="greedy")


def _unsome(v):
    return v[1] if isinstance(v, tuple) and v and v[0] == "Some" else v


def check_one(r, val):
    """-> (obligations [(name, ok)], tie message or None)"""
    if isinstance(val, BaseException):
        return [("model evaluation", False)], f"model evaluation failed: {val}"
    if r["kind"] == "site":
        built, wf, ok, summ, atk, ato = val
        obl = [("build programme accepted", built is True), ("wf_heffb", wf is True), ("heff_ok", ok is True)]
    elif r["kind"] == "link":
        built, wf, ok, summ, atk, ato = val
        obl = [("build programme accepted", built is True), ("wf_linkb", wf is True), ("link_ok", ok is True)]
    else:
        built, wf, ok, summ, atk, ato = val
        obl = [("build programme accepted", built is True), ("wf_twositeb", wf is True), ("heff_two_ok", ok is True)]
    what = f"{r['kind']} call {r['call']} ({r.get('n', r.get('l'))})"
    if summ is None or summ == "None":
        return obl, f"{what}: the model contraction does not go through (legs that cannot be paired)"
    axes, atoms, bnd, glue = _unsome(summ)
    tables = {}
    for a, ws in atk:
        tables[a] = (r["ktens"][a], list(ws))
        tables[a + AOFF] = (np.conj(r["ktens"][a]), [w + WOFF for w in ws])
    for a, ws in ato:
        tables[a] = (r["otens"][a - OAOFF], list(ws))
    try:
        t = eval_open((list(axes), list(atoms), list(bnd), [tuple(p) for p in glue]), tables)
    except Exception as e:  # noqa
        return obl, f"{what}: the model diagram cannot be evaluated on the captured tensors: {type(e).__name__}: {e}"
    if t is None:
        return obl, None
    heff = r["heff"]
    d = int(np.prod(r["shape"])) if r["shape"] else 1
    half = t.ndim // 2
    if tuple(t.shape[half:]) != tuple(r["shape"]) or tuple(t.shape[:half]) != tuple(r["shape"]):
        return obl, (f"{what}: legs of the model diagram {list(t.shape)} are not (legs of the updated tensor) twice "
                     f"{r['shape']}: wrong leg order")
    if heff.shape != (d, d):
        return obl, f"{what}: the library's matrix has shape {heff.shape}, expected {(d, d)}"
    m = t.reshape(d, d)
    err = float(np.max(np.abs(m - heff))) / max(1.0, float(np.max(np.abs(m)))) if d else 0.0
    # relative to the scale of the model value (Hamiltonians given in small units: c05.gen_scaled_cases); floor: the product of
    # the largest entries of the operator tensors times 1e-3 (a value that vanishes by cancellation is not judged against itself)
    if d and float(np.max(np.abs(m))) > 0:
        floor = 1e-3 * float(np.prod([max(float(np.max(np.abs(t))), 1e-300) for t in r["otens"]]))
        err = max(err, float(np.max(np.abs(m - heff))) / max(float(np.max(np.abs(m))), floor))
    if not err <= TOL:
        return obl, (f"{what}: H_eff handed to time_evolve differs from the value of the model diagram "
                     f"(E^dagger H E from fresh blocks) by {err:.3e} relative")
    return obl, None


def heff_instances(ctx, recs):
    """recs: snapshots produced by `capture`.  Returns (n_obligations, n_ok, failures); every snapshot gets
    r['tie'] = None or a message for the correspondence."""
    n = ok = 0
    fails = []
    good = [r for r in recs if "error" not in r]
    for r in recs:
        if "error" in r:
            r["tie"] = f"snapshot of {r['kind']} call {r['call']} failed: {r['error']}"
    vals = coq_eval(ctx, IMPORTS, [_expr(r) for r in good], shard=max(4, len(good) // 14 + 1), scope="nat_scope", timeout=600)
    for r, v in zip(good, vals):
        try:
            obl, tie = check_one(r, v)
        except Exception as e:  # noqa
            obl, tie = [("model output shape", False)], f"{r['kind']} call {r['call']}: cannot interpret the model output: {type(e).__name__}: {e}"
        r["tie"] = tie
        for name, good_ in obl:
            n += 1
            if good_:
                ok += 1
            elif len(fails) < 5:
                fails.append(f"{name} is not true for {r['kind']} call {r['call']} ({r.get('n', r.get('l'))})")
    return n, ok, fails


def run(ctx, cases, obs):
    """hook for C05.model: evaluates all snapshots of all observations, stores the first tie message of a case in
    ob['w_tie'] and drops the bulky snapshots"""
    recs = []
    owner = []
    for ob in obs:
        if isinstance(ob, dict) and ob.get("wrecs"):
            for r in ob["wrecs"]:
                recs.append(r)
                owner.append(ob)
    res = heff_instances(ctx, recs)
    for r, ob in zip(recs, owner):
        if r.get("tie") and not ob.get("w_tie"):
            ob["w_tie"] = "diagram-level tie: " + r["tie"]
    for ob in obs:
        if isinstance(ob, dict) and "wrecs" in ob:
            ob["w_checked"] = len(ob["wrecs"])
            del ob["wrecs"]
    return res
