"""C03 — canonical form: isometries toward the centre, state unchanged, in every mode."""
from __future__ import annotations

import copy
import random
from collections import Counter

import numpy as np

from lib import Prop, coq_eval
import wmodel
from wmodel import Driver, IdMap, snapshot
from props.c02 import gen_build, gen_build_on, well_formed, dense_by_tokens, gen_edit, C02
from util import TTNS


def path_bfs(ttn, a, b):
    prev = {a: None}
    todo = [a]
    while todo:
        x = todo.pop(0)
        if x == b:
            break
        for y in ttn.nodes[x].neighbouring_nodes():
            if y not in prev:
                prev[y] = x
                todo.append(y)
    out = [b]
    while prev[out[-1]] is not None:
        out.append(prev[out[-1]])
    return out[::-1]


def isometry_defects(ttn, centre, keep):
    """for every node != centre: is it an isometry (KEEP: partial isometry) toward the centre?"""
    cp = copy.deepcopy(ttn)
    worst = 0.0
    for nid, nd in cp.nodes.items():
        if nid == centre:
            continue
        nb = path_bfs(cp, nid, centre)[1]
        leg = nd.neighbour_index(nb)
        t = cp.tensors[nid]
        m = np.moveaxis(t, leg, -1).reshape(-1, t.shape[leg])
        g = m.conj().T @ m
        if keep:
            off = g - np.diag(np.diag(g))
            dg = np.real(np.diag(g))
            defect = max(float(np.max(np.abs(off))) if off.size else 0.0, float(np.max(np.minimum(np.abs(dg), np.abs(dg - 1)))))
            # projector onto leading coordinates is what zero padding produces; any diagonal 0/1 projector is a partial isometry
        else:
            defect = float(np.max(np.abs(g - np.eye(g.shape[0]))))
        worst = max(worst, defect)
    return worst


def shapes_by_neighbour(ttn):
    out = {}
    for nid, nd in ttn.nodes.items():
        sh = nd.shape
        out[nid] = ({nb: sh[nd.neighbour_index(nb)] for nb in nd.neighbouring_nodes()}, tuple(sh[nd.nneighbours():]))
    return out


# ---------------------------------------------------------------------------------------------------------------------------
# [conditioning / scaling family]  The property quantifies over ALL tensors: badly conditioned (but full rank), graded, badly
# scaled, exactly zero ones, physical dimensions much larger than the bonds (tall matricisations) are members of the input
# space. The tensors of this family are built from a PLAN (drawn from the case seed): the matricisation (all other legs) x
# (one chosen leg, mostly a virtual one) is an isometry times a small factor T of prescribed structure, times 10**exp.
class _Leg(int):
    """a leg dimension that remembers whether it is a bond ('b') or an open leg ('o') through gen_build_on"""
    def __new__(cls, d, kind):
        x = int.__new__(cls, d)
        x.kind = kind
        return x


# largest accepted deviation of M^H M from the identity (0/1 projector in the shape-keeping mode). Householder QR delivers ~1e-15
# whatever the conditioning of the input; the bound (about 5000 machine epsilons) leaves three orders of magnitude
ISO_TOL = 1e-12

COND_STRUCTS = ("svd", "svd", "svd", "tri", "tri", "kahan", "kahan", "cols", "cols", "rows", "gauss", "zero")


def cond_plan(rng, shape, virt):
    """plan of one tensor: the leg w.r.t. which it is badly conditioned (80%: a virtual leg of dimension >= 2), the structure of the
    small factor, log10 of the grading (uniform in [0, 15]: from perfectly conditioned to numerically rank deficient), an overall
    scale 10**exp (half of the tensors: exp = 0, the others uniform in [-25, 25]), real or complex entries"""
    vb = [k for k in virt if shape[k] >= 2]
    va = [k for k, d in enumerate(shape) if d >= 2]
    axis = rng.choice(vb) if (vb and rng.random() < 0.8) else (rng.choice(va) if va else None)
    struct = rng.choice(COND_STRUCTS)
    if struct == "zero" and rng.random() < 0.5:
        struct = "svd"
    return {"axis": axis, "struct": struct, "logk": rng.uniform(0.0, 15.0), "exp": 0.0 if rng.random() < 0.5 else rng.uniform(-25.0, 25.0),
            "real": rng.random() < 0.25, "seed": rng.randrange(2 ** 31)}


def cond_tensor(shape, plan):
    """the tensor of a plan (see cond_plan); deterministic in the plan"""
    shape = tuple(int(d) for d in shape)
    rs = np.random.RandomState(plan["seed"])
    real = plan["real"]

    def gauss(*sh):
        g = rs.standard_normal(sh)
        return g if real else g + 1j * rs.standard_normal(sh)
    scale = 10.0 ** plan["exp"]
    struct = plan["struct"]
    if struct == "zero":
        return np.zeros(shape, dtype=float if real else complex)
    a = plan["axis"]
    if a is None or struct == "gauss" or not shape:
        return gauss(*shape) * scale
    cols = shape[a]
    rows = int(np.prod(shape)) // cols
    n = min(rows, cols)
    lk = plan["logk"]
    grade = 10.0 ** (-lk * np.arange(n) / max(1, n - 1))            # 1 ... 10**-logk
    if struct == "svd":
        sv = np.sort(np.concatenate([[0.0, 1.0][:n], rs.rand(max(0, n - 2))]))
        w, _ = np.linalg.qr(gauss(n, n))
        t = np.diag(10.0 ** (-lk * sv)) @ w.conj().T
    elif struct == "tri":
        t = np.diag(grade).astype(float if real else complex) + np.diag(grade) @ np.triu(0.7 * gauss(n, n), 1)
    elif struct == "kahan":
        s = 10.0 ** (-lk / max(1, n - 1))
        c = np.sqrt(max(0.0, 1.0 - s * s))
        t = np.diag(s ** np.arange(n)) @ (np.eye(n) - c * np.triu(np.ones((n, n)), 1))
        if not real:
            t = t.astype(complex)
    elif struct == "cols":
        t = gauss(n, n) @ np.diag(grade)
    else:       # "rows"
        t = np.diag(grade) @ gauss(n, n)
    if rows >= cols:
        u, _ = np.linalg.qr(gauss(rows, cols))
        m = u @ t
    else:
        v, _ = np.linalg.qr(gauss(cols, rows))
        m = t @ v.conj().T
    rest = shape[:a] + shape[a + 1:]
    x = np.moveaxis(m.reshape(rest + (cols,)), -1, a)
    return np.ascontiguousarray(x) * scale


class CondDriver(Driver):
    """Driver whose next tensor follows `self.plan` (a cond_plan; None: the ordinary random tensor)"""
    plan = None

    def _rand(self, shape):
        if self.plan is None:
            return Driver._rand(self, shape)
        pl, self.plan = self.plan, None
        return cond_tensor(shape, pl)


def gen_build_cond(rng, nnodes):
    """build ops of the conditioning family + for every op the positions of the virtual legs in the tensor handed over.
    One open leg per node; open dimensions up to 32, bonds up to 8 (so the matricisation of a node w.r.t. one bond is often tall:
    >= 4 x as many rows as columns); the dense state has at most 4096 entries and every tensor at most 4096"""
    parents = [None] + [rng.randrange(0, i) for i in range(1, nnodes)]
    bond = {i: rng.choice((1, 2, 2, 3, 3, 4, 4, 6, 8)) for i in range(1, nnodes)}
    od = [rng.choice((1, 2, 3, 4, 8, 8, 12, 16, 16, 32, 32)) for _ in range(nnodes)]

    def tsize(i):
        s = od[i] * (bond[i] if i else 1)
        for j in range(1, nnodes):
            if parents[j] == i:
                s *= bond[j]
        return s
    smaller = {32: 16, 16: 8, 12: 8, 8: 4, 4: 3, 3: 2, 2: 1, 6: 4}
    for _ in range(200):
        big = [i for i in range(nnodes) if tsize(i) > 4096]
        if int(np.prod(od)) > 4096:
            big.append(max(range(nnodes), key=lambda i: od[i]))
        if not big:
            break
        i = big[0]
        if od[i] > 1 and (int(np.prod(od)) > 4096 or rng.random() < 0.5):
            od[i] = smaller[od[i]]
        else:
            js = [j for j in range(1, nnodes) if (j == i or parents[j] == i) and bond[j] > 1]
            j = max(js, key=lambda j: bond[j])
            bond[j] = smaller[bond[j]]
    ops = gen_build_on(rng, parents, [[_Leg(d, "o")] for d in od], {i: _Leg(b, "b") for i, b in bond.items()})
    virt = []
    for o in ops:
        virt.append([k for k, d in enumerate(o[2]) if d.kind == "b"])
        o[2] = [int(d) for d in o[2]]
    return ops, virt


# ---------------------------------------------------------------------------------------------------------------------------
# [nearly isometric tensors]  "all tensors" includes tensors that are ALMOST isometries already: product states whose local
# vectors are normalised to a few digits only (amplitudes typed with 4-7 decimals, data that went through float32), tensors
# that are an isometry w.r.t. one virtual leg times (1 + eps) / (1 + eps.D) / (1 + eps.G) with eps = 10**-u, u in [4, 14], and
# canonical networks whose tensors were rescaled by a factor close to 1 and are canonicalised again. The statement demands
# an isometry toward the centre (1e-12) afterwards whatever the input was.
def near_plan(rng, shape, virt):
    axis = rng.choice(list(virt)) if virt else (rng.randrange(len(shape)) if shape else None)
    return {"struct": "near", "axis": axis, "u": rng.uniform(4.0, 14.0), "kind": rng.choice(("scalar", "scalar", "diag", "full", "exact")),
            "sign": rng.choice((-1.0, 1.0)), "real": rng.random() < 0.25, "seed": rng.randrange(2 ** 31), "exp": 0.0, "logk": 0.0}


def digits_plan(rng):
    return {"struct": "digits", "digits": rng.choice((4, 5, 5, 6, 7, "f32", "f32", 16)), "real": rng.random() < 0.25, "seed": rng.randrange(2 ** 31),
            "axis": None, "exp": 0.0, "logk": 0.0}


def near_tensor(shape, plan):
    shape = tuple(int(d) for d in shape)
    rs = np.random.RandomState(plan["seed"])
    real = plan["real"]

    def gauss(*sh):
        g = rs.standard_normal(sh)
        return g if real else g + 1j * rs.standard_normal(sh)
    if plan["struct"] == "digits":
        v = gauss(*shape)
        nv = float(np.linalg.norm(v))
        v = v / nv if nv else v
        if plan["digits"] == "f32":
            v = v.astype(np.float32 if real else np.complex64).astype(float if real else complex)
        else:
            v = np.round(v, plan["digits"])
        return np.ascontiguousarray(v)
    a = plan["axis"]
    if a is None or not shape:
        return gauss(*shape)
    cols = shape[a]
    rows = int(np.prod(shape)) // cols
    if rows < cols:
        return gauss(*shape)           # no isometry out of a smaller space
    q, _ = np.linalg.qr(gauss(rows, cols))
    eps = plan["sign"] * 10.0 ** (-plan["u"])
    kind = plan["kind"]
    if kind == "scalar":
        t = (1.0 + eps) * np.eye(cols)
    elif kind == "diag":
        t = np.diag(1.0 + eps * rs.uniform(-1.0, 1.0, cols))
    elif kind == "full":
        t = np.eye(cols) + eps * gauss(cols, cols) / np.sqrt(cols)
    else:
        t = np.eye(cols)
    m = q @ t
    rest = shape[:a] + shape[a + 1:]
    return np.ascontiguousarray(np.moveaxis(m.reshape(rest + (cols,)), -1, a))


def _ttn_diff(a, b):
    """None if the two networks are indistinguishable (structure, leg permutations, stored arrays bit for bit, recorded centre)"""
    if snapshot(a) != snapshot(b):
        return "structure / leg bookkeeping differs"
    if a.orthogonality_center_id != b.orthogonality_center_id:
        return f"recorded centre {a.orthogonality_center_id} instead of {b.orthogonality_center_id}"
    for k, v in b._tensors.data.items():
        w = a._tensors.data[k]
        if w.shape != v.shape or w.dtype != v.dtype or not np.array_equal(w, v):
            return f"stored tensor of {k} differs"
    return None


class R7Driver(CondDriver):
    """CondDriver + (1) plans of the nearly-isometric family, (2) chain classes: a build op may be executed through
    attach_node_right_end / attach_node_left_end (`via`) or a whole window through from_tensor_list (`from_list`), (3) a call that
    raises: the caller KEEPS ITS OBJECT (not the backup); what the rejected call did to it is recorded in `damage`"""
    via = None
    damage = None

    def _rand(self, shape):
        pl = self.plan
        if pl is not None and pl.get("struct") in ("near", "digits"):
            self.plan = None
            return near_tensor(shape, pl)
        if pl is not None and pl.get("struct") == "rescale":
            self.plan = None
            return np.array(copy.deepcopy(self.ttn).tensors[pl["node"]]) * pl["factor"]
        return CondDriver._rand(self, shape)

    def apply(self, op):
        mine = self.ttn
        self.damage = None
        ok, err = Driver.apply(self, op)
        self.via = None
        if not ok:
            # Driver.apply put the deep copy taken before the call into self.ttn: it is the reference for "left as it was"
            self.damage = _ttn_diff(mine, self.ttn)
            self.ttn = mine
        return ok, err

    def _apply(self, op):
        v = self.via
        if op[0] == "add_child" and v in ("right", "left", "left_final"):
            x = self._rand(tuple(op[2]))
            if v == "right":
                self.ttn.attach_node_right_end(wmodel.Node(identifier=op[1]), x)
            else:
                self.ttn.attach_node_left_end(wmodel.Node(identifier=op[1]), x, final=(v == "left_final"))
            self.atoms.append(x)
            return
        Driver._apply(self, op)

    def from_list(self, cls, ops, sites, prefix, root_site):
        """cls.from_tensor_list on fresh tensors; `ops` are the add_root / add_child calls the constructor is expected to be equivalent
        to, in its order (`sites`: their positions in the list). Returns one (snapshot, raw tensors) record per node added to the
        RETURNED object (the base-class entry points are observed while the constructor runs)."""
        tensors = [None] * sum(1 for o in ops if o[0] != "access")
        xs = []
        for o, s in zip(ops, sites):
            if o[0] == "access":
                continue
            x = self._rand(tuple(o[2]))
            tensors[s] = x
            xs.append(x)
        base = wmodel.TreeTensorNetwork
        recs = []
        orig = {nm: base.__dict__[nm] for nm in ("add_root", "add_child_to_parent")}

        def wrap(f):
            def g(self_, *a, **kw):
                pre = (snapshot(self_), {k: np.array(v) for k, v in self_._tensors.data.items()})
                out = f(self_, *a, **kw)
                recs.append((self_, pre, (snapshot(self_), {k: np.array(v) for k, v in self_._tensors.data.items()})))
                return out
            return g
        for nm, f in orig.items():
            setattr(base, nm, wrap(f))
        try:
            obj = cls.from_tensor_list(tensors, node_prefix=prefix, root_site=root_site)
        finally:
            for nm, f in orig.items():
                setattr(base, nm, f)
        self.ttn = obj
        self.atoms += xs
        calls = [(pre, post) for (o_, pre, post) in recs if o_ is obj]
        if len(calls) != len(xs):
            return None
        out, j = [], 0
        for o in ops:
            if o[0] == "access":
                out.append(calls[j][0])      # the state the next add call started from
            else:
                out.append(calls[j][1])
                j += 1
        return out


def gen_build_chain(rng, n, nphys, dim_choices):
    """a chain of n sites held by a MatrixProductState (nphys = 1) / MatrixProductOperator (nphys = 2): a window of k0 sites around the
    root site through `from_tensor_list` (k0 = 0: add_root only), the other sites one at a time at the left / right end, through
    attach_node_left_end / attach_node_right_end (while that side was built with them only) or through the generic inherited
    add_child_to_parent with the legs handed over in a random order. Returns the equivalent add_root / add_child ops, the way every op
    is executed, and {"nwin", "root_site", "prefix", "sites", "late_from"} (the ops from late_from on are performed later; an attach_node_* call at the root is preceded by an
    `access` op of the root, because the method reads `self.root`), between the
    canonical-form operations)."""
    r = rng.randrange(n)
    bond = [rng.choice(dim_choices) for _ in range(max(0, n - 1))]
    phys = [rng.choice(dim_choices) for _ in range(n)]
    prefix = rng.choice(("site", "site", "n", "s", "site1", "q_"))
    k0 = min(n, rng.choice((0, 0, 1, 2, 3, 4, n)))
    a = rng.randrange(max(0, r - k0 + 1), min(r, n - k0) + 1) if k0 else 0
    b = a + k0 - 1
    plist = ["p", "q"][:nphys]

    def name(i):
        return prefix + str(i - a)

    def outer(i):
        return i > 0 if i < r else i < n - 1

    def dim(i, lab):
        if lab in ("p", "q"):
            return phys[i]
        if lab == "L":
            return bond[i - 1]
        if lab == "R":
            return bond[i]
        left = i < r
        if lab == "P":
            return bond[i] if left else bond[i - 1]
        return bond[i - 1] if left else bond[i]          # "O"
    cur = {}
    nch = {i: 0 for i in range(n)}
    ops, vias, sites = [], [], []
    root = (["L"] if r > 0 else []) + (["R"] if r < n - 1 else []) + plist
    if k0 >= 2 and r == a and r > 0:
        root = ["R", "L"] + plist        # first tensor of the list: [right leg, further legs ...]
    shuffled = k0 == 0 and rng.random() < 0.3
    if shuffled:
        rng.shuffle(root)
    cur[r] = list(root)
    ops.append(["add_root", name(r), [dim(r, l) for l in root]])
    vias.append("ftl" if k0 else None)
    sites.append(r - a)
    reg = {"L": not shuffled, "R": (not shuffled) and r > 0}

    def add(i, via):
        left = i < r
        p = i + 1 if left else i - 1
        rest = (["O"] if outer(i) else []) + plist
        if via == "left":
            labels = ["O", "P"] + plist
        elif via in ("right", "left_final", "ftl0"):
            labels = ["P"] + rest
        else:
            labels = ["P"] + rest
            rng.shuffle(labels)
        x = ("L" if left else "R") if p == r else "O"
        pleg = cur[p].index(x)
        if p == r and via in ("right", "left", "left_final"):
            # attach_node_* reads `self.root`, which applies the pending lazy transposition of the root tensor first
            ops.append(["access", name(r)])
            vias.append("access")
            sites.append(None)
        ops.append(["add_child", name(i), [dim(i, l) for l in labels], labels.index("P"), name(p), pleg])
        vias.append(via)
        sites.append(i - a)
        cur[p].pop(pleg)
        cur[p].insert((0 if p == r else 1) + nch[p], "c")
        nch[p] += 1
        cur[i] = ["P"] + [l for l in labels if l != "P"]
    if k0:
        if r == a:
            for i in range(a + 1, b + 1):
                add(i, "ftl0" if i == a + 1 else "right")
            reg["R"] = reg["R"] or k0 >= 2
        else:
            for i in range(r - 1, a - 1, -1):
                add(i, "left_final" if i == a else "left")
            for i in range(r + 1, b + 1):
                add(i, "right")
    nwin = len(ops) if k0 else 0
    lo, hi = (a, b) if k0 else (r, r)
    while lo > 0 or hi < n - 1:
        side = rng.choice([s for s, okk in (("L", lo > 0), ("R", hi < n - 1)) if okk])
        i = lo - 1 if side == "L" else hi + 1
        if reg[side] and rng.random() < 0.65:
            via = "right" if side == "R" else ("left" if (outer(i) and rng.random() < 0.5) else "left_final")
        else:
            via = "generic"
            reg[side] = False
        add(i, via)
        lo, hi = min(lo, i), max(hi, i)
    adds = [k for k, o in enumerate(ops) if o[0] == "add_child" and k >= max(nwin, 1)]
    nlate = min(rng.choice((0, 0, 0, 1, 2)), len(adds))
    start = len(ops)
    if nlate:
        start = adds[-nlate]
        if ops[start - 1][0] == "access":
            start -= 1
    return ops, vias, {"nwin": nwin, "root_site": r - a, "prefix": prefix, "sites": sites, "late_from": start}


class C03(Prop):
    id = "C03"
    rule = ("random trees (1-7 nodes; FULL mode limited to <=4 nodes with dims<=2 to bound growth) built with shuffled legs, bond/physical "
            "dimensions in {1,2,3} (bonds larger than the space they connect and rank-deficient tensors included), then 1-5 operations: canonical "
            "form at a random node / centre moves, random split mode; plus 25% additional cases (2-7 nodes) with SHARED ARRAYS: all nodes whose tensors "
            "have equal shapes are handed the very same ndarray object (`[leaf] * n`, translation-invariant states), half of them on the random "
            "dimensions above, half with one bond and one physical dimension for the whole tree (all leaves one object), same operations and the "
            "same dense before/after oracle (reference contracted from a deep copy before the first operation); plus 33% additional cases (1-5 nodes) of "
            "the CONDITIONING / SCALING family: one open leg per node of dimension in {1,2,3,4,8,12,16,32}, bonds in {1,2,3,4,6,8} (dense state <= 4096 "
            "entries), every tensor = (isometry x small factor T) w.r.t. one leg (80%: a virtual leg of dimension >= 2) with T one of: prescribed "
            "singular values, graded upper triangular with random off-diagonal entries, Kahan-type, column-graded Gaussian, row-graded Gaussian, plain "
            "Gaussian, exactly zero tensor; grading 10**-u with u uniform in [0,15] (perfectly conditioned ... badly conditioned but full rank ... "
            "numerically rank deficient); half of the tensors scaled by 10**e, e uniform in [-25,25]; 25% real; replaced tensors (scramble) follow "
            "the same plans; same operations (no structural edits); oracles there additionally RELATIVE to the scale of the reference (state: largest "
            "deviation <= 1e-9 x largest entry of the reference, zero state stays zero; norms: relative 1e-9). In all families every non-centre tensor "
            "has to be an isometry (KEEP: 0/1 projector) toward the centre up to 1e-12 (Householder QR: ~1e-15 whatever the conditioning). "
            "Plus 20% additional cases of CHAIN CLASSES (2-7 sites): the network is a MatrixProductState (two thirds) / MatrixProductOperator (two open "
            "legs per site), root at a random site, a window of 0-n sites around it built by from_tensor_list (random node prefix, also prefixes that "
            "make identifiers prefixes of each other), the other sites attached one at a time at either end through attach_node_left_end (both "
            "`final` conventions) / attach_node_right_end or through the generic inherited add_child_to_parent with the legs in a random order (once "
            "a side was extended generically it stays generic; 30% of the constructor-free builds hand the root's legs over in a random order); "
            "0-2 of the sites are attached only LATER, between the canonical-form operations (a different state from there on; the next operation is "
            "a full canonical form); every build call is tied to the model as the add_root / add_child (+ access of the root, which attach_node_* "
            "performs) it has to be equivalent to. Plus 25% additional cases of NEARLY ISOMETRIC tensors: (iso) tensors = isometry w.r.t. a virtual "
            "leg times 1+eps / 1+eps.D / 1+eps.G / exactly 1, eps = +-10**-u, u uniform in [4,14], mixed with ordinary tensors; (product) all bonds 1, "
            "local vectors normalised and rounded to 4-7 decimals / passed through float32 / exact; (rescale) canonical form, then some or all "
            "tensors times 1 +- 10**-u (u in [5,11]) through replace_tensor, then canonical form again. In both new families half of the cases "
            "contain 1-2 REJECTED calls (a centre move while no centre is recorded as the first operation; canonical_form / ensure_orth_center "
            "naming a node that does not exist: 'ghost', the empty string, an existing identifier with one character less / more): the library "
            "has to raise, the caller keeps its object (not a backup), which has to be bit for bit as it was (structure, leg bookkeeping, arrays, "
            "recorded centre), and the sequence continues on it. "
            "non-trivial = at least 2 nodes; distinct by seed content")
    clauses = [
        ("F", "the QR leg specifications built for a node and any neighbour partition the node's legs; REDUCED bond <= both sides; KEEP bond = the old bond dimension (Props C03_*)"),
        ("F", "canonical_form records the requested centre; iso_check soundness: a store that passes it has, at every non-centre node, exactly one QR-Q atom whose new bond is the leg toward the centre"),
        ("F", "canonical_form establishes iso_check and move_orthogonalization_center preserves it, on every well-formed tree store, every centre, every mode (C03_canonical_form_iso, C03_move_center_iso); a move ends at the requested node (C03_move_center_reaches); distance_to_node computes tree distances; path_from_to is the tree path"),
        ("I", "per explored instance: the theorems' hypotheses (build sequence satisfies ops_okb, store wfb, temporary identifier fresh) and, as a cross-check, iso_check itself, evaluated by vm_compute"),
        ("O", "Q of a QR call is an isometry from its bond (KEEP: zero-padded partial isometry) — LAPACK contract, validated numerically at every node "
              "(deviation of M^H M from the identity / a 0-1 projector <= 1e-12), including badly conditioned full-rank, graded, badly scaled and "
              "exactly zero tensors and tall matricisations (conditioning / scaling family)"),
        ("O", "the represented state is unchanged: one step split_qr_contract_r_to_neighbour, canonical_form, move_orthogonalization_center, "
              "ensure_orth_center and every sequence of them preserve the value of the whole network (net_value, any commutative semiring, every "
              "assignment of the open wires; open wires permuted only; the extended store invariant wfsb preserved), in all three modes, on every "
              "wfsb store and tree (C03_qr_step_state_unchanged, C03_canonical_form_state_unchanged, C03_move_center_state_unchanged, "
              "C03_ensure_center_state_unchanged, C03_sequence_state_unchanged) -- under the kernel contract def_holds: every QR definition recorded "
              "during the operation satisfies SUM_k Q.R = A over its new bond (KEEP: the zero-padded factors). The contract is a premise (not "
              "provable about LAPACK); it is validated numerically for every recorded definition of every explored case against the captured "
              "kernel factors, and its satisfiability is shown by C03_state_unchanged_example (concrete table over Z, all three modes)"),
        ("I", "per explored instance: the hypotheses of the state theorems (wfsb of the store the first canonical-form operation starts from, "
              "temporary identifier fresh) by vm_compute"),
        ("V", "state unchanged (dense einsum of the real network before/after every operation), centre-norm = full norm: dense oracle; tensor "
              "replacements (scramble) and structural edits between the operations are outside the C03 state theorems (edits: C02_run_net_value). "
              "The model treats the tensor of every node as a separate value; that nodes which were handed one and the same ndarray object do not "
              "influence each other (no write into a buffer the caller or another node still references) is covered by the shared-array cases of "
              "the dense oracle only"),
        ("V", "class-specific objects (MatrixProductState / MatrixProductOperator built by from_tensor_list, attach_node_* and the generic API, "
              "extended between the operations) satisfy the same statement: the store model knows no classes; the build calls are tied to the "
              "generic add_root / add_child they have to be equivalent to, everything after that is the same tie and the same dense / isometry / "
              "norm oracle. Rejected calls: the model's step returns an error and keeps the state (crun_obs), the implementation has to raise and "
              "leave the caller's object unchanged bit for bit (compared with a deep copy taken before the call)"),
    ]
    trusted_base = ["LAPACK QR: Q^H Q = 1 (validated numerically at every node)",
                    "LAPACK QR kernel contract Q R = A over the new bond, incl. zero-padded KEEP factors (premise def_holds of the C03_*_state_unchanged "
                    "theorems; validated numerically for every recorded definition of every explored case)",
                    "net_value (TTN/InvSem.v) as the meaning of 'the represented state': sum over bound wires of the product of the atoms, tied to the "
                    "code by comparing every raw tensor with the einsum of its model diagram after every operation",
                    "NumPy transpose/tensordot/reshape/pad"]

    def generate(self, ctx, stream, budget_scale=1):
        rng = ctx.rng(stream)
        n = ctx.scale(120, 1200) * budget_scale
        cases = [{"seed": rng.randrange(10 ** 9), "nnodes": rng.choice([1, 2, 2, 3, 3, 4, 4, 5, 6, 7]), "nops": rng.randrange(1, 6),
                  "lowrank": j % 4 == 0} for j in range(n)]
        # [shared arrays] ADDITIONAL cases (the ones above are unchanged): nodes whose tensors have equal shapes are handed the very SAME
        # ndarray object (a caller writing `[leaf] * n`, a translation-invariant product/initial state). "random": the random trees and
        # dimensions of the main family; "uniform": one bond dimension and one physical dimension for the whole tree, so that all leaves
        # (and all inner nodes of equal degree) hold one object
        ns = ctx.scale(30, 300) * budget_scale
        cases += [{"seed": rng.randrange(10 ** 9), "nnodes": rng.choice([2, 3, 3, 4, 4, 5, 6, 7]), "nops": rng.randrange(1, 6),
                   "lowrank": j % 4 == 0, "share": "uniform" if j % 2 else "random"} for j in range(ns)]
        # [conditioning / scaling] ADDITIONAL cases (the ones above are unchanged): tensors that are badly conditioned w.r.t. one leg
        # (grading 1 .. 1e-15, several structures), badly scaled (10**+-25 per tensor), exactly zero; open dimensions up to 32 with
        # bonds up to 8 (tall matricisations); see cond_plan / cond_tensor / gen_build_cond
        nc = ctx.scale(50, 800) * budget_scale
        cases += [{"seed": rng.randrange(10 ** 9), "nnodes": rng.choice([1, 2, 2, 3, 3, 4, 4, 5]), "nops": rng.randrange(1, 6),
                   "lowrank": False, "cond": True} for j in range(nc)]
        # [chain classes] ADDITIONAL cases: the network is a MatrixProductState / MatrixProductOperator (every third one), built by
        # from_tensor_list (a window around a random root site), attach_node_left_end / attach_node_right_end and the generic
        # add_child_to_parent (legs in a random order), some sites attached only between the canonical-form operations; rejected
        # calls (centre move without a recorded centre, unknown node) interleaved; see gen_build_chain / R7Driver
        nk = ctx.scale(18, 300) * budget_scale
        cases += [{"seed": rng.randrange(10 ** 9), "nnodes": rng.choice([2, 3, 3, 4, 4, 5, 6, 7]), "nops": rng.randrange(1, 6),
                   "lowrank": False, "chain": "mpo" if j % 3 == 2 else "mps"} for j in range(nk)]
        # [nearly isometric tensors] ADDITIONAL cases: "iso": tensors = isometry w.r.t. a virtual leg x (1 + 10**-u . something), u in
        # [4, 14]; "product": all bonds 1, local vectors normalised to 4-7 digits / through float32; "rescale": canonical form, tensors
        # times a factor 1 +- 10**-u (u in [5, 11]), canonical form again; same rejected calls; see near_plan / near_tensor
        nr = ctx.scale(24, 400) * budget_scale
        cases += [{"seed": rng.randrange(10 ** 9), "nnodes": rng.choice([1, 2, 2, 3, 3, 4, 4, 5] if j % 3 != 1 else [2, 3, 4, 5, 6, 7]),
                   "nops": rng.randrange(1, 6), "lowrank": False, "near": ("iso", "product", "rescale")[j % 3]} for j in range(nr)]
        return cases

    def nontrivial(self, case):
        return case["nnodes"] >= 2

    def distribution(self, cases):
        c = Counter()
        for x in cases:
            c[f"nodes={x['nnodes']}"] += 1
        c.update(getattr(self, "_stats", {}))
        ctr = getattr(self, "_contract", None)
        if ctr:
            c["recorded QR definitions with the kernel contract Q.R = A validated numerically"] = ctr[1]
        if getattr(self, "_maxdefect", None) is not None:
            c[f"largest accepted isometry defect (tolerance {ISO_TOL:g})"] = float(f"{self._maxdefect:.2e}")
        return dict(c)

    def _run_case(self, case):
        rng = random.Random(case["seed"])
        # every fifth case: a hand-written INTEGER state (tensors of dtype int64); the factorisations have to promote it
        intstate = case.get("intstate", case["seed"] % 5 == 0)
        drv = Driver(ttn_cls=TTNS, nprs=np.random.RandomState(case["seed"] % (2 ** 31)), lowrank=0.5 if case.get("lowrank") else 0.0,
                     ints=3 if intstate else None, complex_=not intstate, intdtype=intstate, share=bool(case.get("share")))
        cond = bool(case.get("cond"))
        prng = random.Random(case["seed"] + 11)      # plans of the conditioning family
        virt = None
        if cond:
            drv = CondDriver(ttn_cls=TTNS, nprs=np.random.RandomState(case["seed"] % (2 ** 31)))
        near = case.get("near")           # nearly isometric tensors: "iso" / "product" / "rescale"
        chain = case.get("chain")         # "mps" / "mpo": the network is a MatrixProductState / MatrixProductOperator
        r7 = bool(near or chain)
        cinfo = None
        late = []
        late_via = {}
        if r7:
            from pytreenet.special_ttn.mps import MatrixProductState, MatrixProductOperator
            cls = {"mps": MatrixProductState, "mpo": MatrixProductOperator, None: TTNS}[chain]
            drv = R7Driver(ttn_cls=cls, nprs=np.random.RandomState(case["seed"] % (2 ** 31)))
        small = case["nnodes"] <= 4
        dim_choices = (1, 2, 2) if small else (1, 2, 2, 3)
        if case.get("share") == "uniform":
            # one bond dimension and one physical dimension everywhere (legs still handed over in a random order)
            nn = case["nnodes"]
            parents = [None] + [rng.randrange(0, i) for i in range(1, nn)]
            bdim, pdim = rng.choice(dim_choices), rng.choice(dim_choices)
            ops = gen_build_on(rng, parents, [[pdim] for _ in range(nn)], {i: bdim for i in range(1, nn)})
        elif cond or near in ("iso", "rescale"):
            ops, virt = gen_build_cond(rng, case["nnodes"])
        elif near == "product":
            # all bonds of dimension 1
            nn = case["nnodes"]
            parents = [None] + [rng.randrange(0, i) for i in range(1, nn)]
            ops = gen_build_on(rng, parents, [[_Leg(rng.choice((2, 2, 3, 4)), "o")] for _ in range(nn)], {i: _Leg(1, "b") for i in range(1, nn)})
            virt = []
            for o in ops:
                virt.append([k for k, d in enumerate(o[2]) if d.kind == "b"])
                o[2] = [int(d) for d in o[2]]
        elif chain:
            ops, vias, cinfo = gen_build_chain(rng, case["nnodes"], 2 if chain == "mpo" else 1, dim_choices)
            lf = cinfo["late_from"]
            late = [[o, v] for o, v in zip(ops[lf:], vias[lf:])]
            ops = ops[:lf]
        else:
            ops = gen_build(rng, case["nnodes"], nopen_choices=(1,), dim_choices=dim_choices)
        if case.get("ops"):
            ops = case["ops"]
            virt = None
        steps = []
        viol = None
        applied = []
        if chain and cinfo["nwin"] and not case.get("ops"):
            # the window built by the documented constructor from_tensor_list; one step per node it adds
            nw = cinfo["nwin"]
            try:
                recs = drv.from_list(cls, ops[:nw], cinfo["sites"][:nw], cinfo["prefix"], cinfo["root_site"])
            except Exception as e:  # noqa
                recs = []
                viol = f"from_tensor_list raised {type(e).__name__}: {e}"
            if not viol and recs is None:
                recs = []
                viol = "from_tensor_list did not add one node per tensor"
            for op, (snap_, raws_) in zip(ops[:nw], recs):
                applied.append(op)
                steps.append({"ok": True, "err": None, "snap": snap_, "raws": raws_, "centre": None})
            self._stats[f"chain: window of {sum(1 for o in ops[:nw] if o[0] != 'access')} sites through from_tensor_list"] += 1
            if viol:
                return {"ops": applied, "steps": steps, "atoms": drv.atoms, "viol": viol}
        for op in ops[len(applied):]:
            if op[0] not in ("add_root", "add_child") and not (chain and op[0] == "access"):
                break          # explicit case["ops"]: everything after the build goes through the judged loop below
            if near and virt is not None:
                vl = virt[len(applied)]
                drv.plan = digits_plan(prng) if near == "product" else (near_plan(prng, op[2], vl) if (near == "iso" and prng.random() < 0.6) else None)
                if drv.plan:
                    self._stats[f"near: tensors built as {drv.plan['struct']}" + (f" ({drv.plan['kind']})" if drv.plan["struct"] == "near" else "")] += 1
            if chain:
                drv.via = vias[len(applied)]
                if op[0] != "access":
                    self._stats[f"chain: node added through {'add_root' if op[0] == 'add_root' else drv.via}"] += 1
            if cond and virt is not None:
                drv.plan = cond_plan(prng, op[2], virt[len(applied)])
                self._cond_stats(op[2], drv.plan, virt[len(applied)])
            ok, err = drv.apply(op)
            applied.append(op)
            steps.append({"ok": ok, "err": err, "snap": snapshot(drv.ttn), "raws": {k: np.array(v) for k, v in drv.ttn._tensors.data.items()},
                          "centre": drv.ttn.orthogonality_center_id})
        tokens = {nid: [(nid, j) for j in range(nd.nopen_legs())] for nid, nd in drv.ttn.nodes.items()}
        dense0 = dense_by_tokens(drv.ttn, tokens)
        if case.get("share"):
            # how much sharing this case really has: nodes / leaves (one neighbour) that were given one ndarray object
            byobj = {}
            for o_, a_ in zip(applied, drv.atoms):
                byobj.setdefault(id(a_), []).append(o_[1])
            groups = [g for g in byobj.values() if len(g) > 1]
            self._stats[f"shared arrays ({case['share']} dims): cases"] += 1
            if groups:
                self._stats["shared arrays: cases where >= 2 nodes hold one ndarray object"] += 1
            if any(sum(1 for x in g if drv.ttn.nodes[x].nneighbours() == 1) > 1 for g in groups):
                self._stats["shared arrays: cases where >= 2 leaves hold one ndarray object"] += 1
        ids = list(drv.ttn.nodes)
        have_centre = False
        if not case.get("ops"):
            for _ in range(case["nops"]):
                c = rng.choice(ids)
                maxdim = max((max(nd.shape) if nd.shape else 1) for nd in drv.ttn.nodes.values())
                modes = ["reduced", "keep"] + (["full"] if (small and maxdim <= 4) else [])
                mode = rng.choice(modes)
                if have_centre and rng.random() < 0.3:
                    # modify a tensor (the recorded centre goes stale); the next operation must be
                    # a full canonical_form, which has to cope with that
                    ops = ops + [["scramble", rng.choice(ids), "none"], ["canon", c, mode]]
                    continue
                r = rng.random()
                if r < 0.25:
                    # the ensure_* entry points: canonical form when no centre is recorded, a move otherwise
                    if rng.random() < 0.5:
                        ops = ops + [["ensure", c, mode]]
                    else:
                        ops = ops + [["ensure_root", "n0", mode]]
                    have_centre = True
                    continue
                kind = "move" if (have_centre and rng.random() < 0.6) else "canon"
                ops = ops + [[kind, c, mode]]
                have_centre = True
        if r7 and not case.get("ops"):
            built = len(applied)
            cops = ops[built:]
            mrng = random.Random(case["seed"] + 23)
            if near == "rescale":
                # canonical form, then some / all tensors times a factor close to 1 (replace_tensor), then canonical form again
                u = mrng.uniform(5.0, 11.0)
                sub = [x for x in ids if mrng.random() < 0.7] or [mrng.choice(ids)]
                pre = [["canon", mrng.choice(ids), mrng.choice(["reduced", "keep"])]]
                pre += [["scramble", x, "none", 1.0 + mrng.choice((-1.0, 1.0)) * 10.0 ** (-u)] for x in sub]
                pre += [["canon", mrng.choice(ids), mrng.choice(["reduced", "keep"])]]
                cops = pre + cops
            # [later extension of a chain] sites attached between the canonical-form operations (after the first of them)
            groups = []
            for o, v in late:
                if groups and groups[-1][-1][0] == "access":
                    groups[-1].append(o)
                else:
                    groups.append([o])
            pos = sorted(mrng.randrange(1, len(cops) + 1) for _ in groups)
            shift = 0
            for g, q in zip(groups, pos):
                cops[q + shift:q + shift] = g
                shift += len(g)
            late_via = {o[1]: v for o, v in late if o[0] == "add_child"}
            # [rejected calls] a call the library has to reject: a centre move while no centre is recorded (only as the very first
            # operation), any operation naming a node that does not exist. The object has to stay as it was; the sequence goes on
            if mrng.random() < 0.5:
                for _ in range(mrng.choice((1, 1, 2))):
                    q = mrng.randrange(0, len(cops) + 1)
                    ghost = mrng.choice(("ghost", ids[0] + "0", ids[-1][:-1], ""))
                    if ghost in ids or ghost in late_via:
                        ghost = "ghost"
                    if q == 0 and mrng.random() < 0.5:
                        cops.insert(0, ["move", mrng.choice(ids), mrng.choice(["reduced", "keep"]), "rej"])
                    else:
                        if q > 0 and cops[q - 1][0] == "access":
                            q -= 1       # never between the access of the root and the attach call it belongs to
                        # (a centre MOVE to an unknown node is rejected by the library, too, but the model's path search is not
                        # defined there: not part of the family)
                        cops.insert(q, [mrng.choice(("canon", "ensure")), ghost, mrng.choice(["reduced", "keep"]), "rej"])
            ops = ops[:built] + cops
        keep_seen = False
        # structural edits between the canonical-form operations (every third case): a contraction, a split (QR / SVD), an inserted
        # identity or a renaming changes the tree; the next operation is then a full canonical_form on the CURRENT tree
        edits = (not case.get("ops")) and (not cond) and (not r7) and case.get("edits", case["seed"] % 3 == 0)
        erng = random.Random(case["seed"] + 5)
        fresh_ctr = [0]

        def fresh():
            fresh_ctr[0] += 1
            return f"x{fresh_ctr[0]}"
        pending = list(ops[len(applied):])
        canon_seen = False
        need_canon = False
        while pending:
            op = pending.pop(0)
            if edits and canon_seen and erng.random() < 0.5:
                pre_snap = snapshot(drv.ttn)
                for _try in range(6):
                    e = gen_edit(erng, pre_snap, fresh)
                    if e[0] in ("contract", "split", "insert_identity", "rename"):
                        break
                else:
                    e = None
                if e is not None:
                    ok, err = drv.apply(e)
                    applied.append(e)
                    t = drv.ttn
                    steps.append({"ok": ok, "err": err, "snap": snapshot(t), "raws": {k: np.array(v) for k, v in t._tensors.data.items()},
                                  "centre": t.orthogonality_center_id})
                    self._stats[f"edit:{e[0]}:{'ok' if ok else 'rejected'}"] += 1
                    if ok:
                        tokens = C02._tokens_after(e, tokens, pre_snap)
                        need_canon = True
                        keep_seen = True     # an edit may leave zero-padded / non-isometric tensors; only the next canon restores the attribute
            if op[0] == "access":
                ok, err = drv.apply(op)
                applied.append(op)
                t = drv.ttn
                steps.append({"ok": ok, "err": err, "snap": snapshot(t), "raws": {k: np.array(v) for k, v in t._tensors.data.items()},
                              "centre": t.orthogonality_center_id})
                if not ok:
                    viol = viol or f"{op} raised {err}"
                continue
            if op[0] == "add_child":
                # [later extension of a chain] one more site at an end; a different state from here on, the next operation is a
                # full canonical form
                pnn = drv.ttn.nodes[op[4]].nneighbours()
                drv.via = late_via.get(op[1])
                ok, err = drv.apply(op)
                applied.append(op)
                t = drv.ttn
                steps.append({"ok": ok, "err": err, "snap": snapshot(t), "raws": {k: np.array(v) for k, v in t._tensors.data.items()},
                              "centre": t.orthogonality_center_id})
                self._stats[f"chain: node added LATER through {late_via.get(op[1])}:{'ok' if ok else 'rejected'}"] += 1
                if not ok:
                    viol = viol or f"{op} raised {err}"
                    continue
                tokens[op[4]].pop(op[5] - pnn)
                tokens[op[1]] = [(op[1], j) for j in range(t.nodes[op[1]].nopen_legs())]
                dense0 = dense_by_tokens(t, tokens)
                need_canon = True
                keep_seen = True
                continue
            if len(op) > 3 and op[3] == "rej":
                before_c = drv.ttn.orthogonality_center_id
                ok, err = drv.apply(op)
                applied.append(op)
                t = drv.ttn
                steps.append({"ok": ok, "err": err, "snap": snapshot(t), "raws": {k: np.array(v) for k, v in t._tensors.data.items()},
                              "centre": t.orthogonality_center_id})
                self._stats[f"rejected call expected: {op[0]} ({'no centre recorded' if op[1] in t.nodes else 'unknown node'}):{'rejected' if not ok else 'ACCEPTED'}"] += 1
                if viol:
                    continue
                if ok:
                    viol = f"{op} was accepted although {'no centre is recorded' if op[1] in t.nodes else 'the node does not exist'}"
                elif drv.damage:
                    viol = f"{op} raised ({err}) but did not leave the network as it was: {drv.damage}"
                elif t.orthogonality_center_id != before_c:
                    viol = f"{op} raised ({err}) but the recorded centre changed"
                continue
            if op[0] != "scramble":
                cur = list(drv.ttn.nodes)
                if need_canon:
                    op = ["canon", op[1] if op[1] in cur else erng.choice(cur), op[2]]
                elif op[1] not in cur:
                    op = [op[0], erng.choice(cur), op[2]]
            elif op[1] not in drv.ttn.nodes:
                op = ["scramble", erng.choice(list(drv.ttn.nodes)), op[2]]
            if op[0] == "canon":
                canon_seen = True
                if need_canon:
                    keep_seen = op[2] == "keep"
                need_canon = False
            keep_seen = keep_seen or op[2] == "keep"
            shapes_before = shapes_by_neighbour(drv.ttn)
            if cond and op[0] == "scramble":
                nd_ = drv.ttn.nodes[op[1]]
                drv.plan = cond_plan(prng, list(nd_.shape), list(range(nd_.nneighbours())))
                self._cond_stats(list(nd_.shape), drv.plan, list(range(nd_.nneighbours())))
            if near and op[0] == "scramble":
                nd_ = drv.ttn.nodes[op[1]]
                if len(op) > 3:
                    drv.plan = {"struct": "rescale", "node": op[1], "factor": op[3]}
                    self._stats["near: tensors rescaled by a factor close to 1"] += 1
                elif near == "product":
                    drv.plan = digits_plan(prng)
                elif near == "iso":
                    drv.plan = near_plan(prng, list(nd_.shape), list(range(nd_.nneighbours())))
            ok, err = drv.apply(op)
            drv.plan = None
            if op[0] == "scramble":
                applied.append(op)
                t = drv.ttn
                steps.append({"ok": ok, "err": err, "snap": snapshot(t), "raws": {k: np.array(v) for k, v in t._tensors.data.items()},
                              "centre": t.orthogonality_center_id})
                self._stats[f"scramble:{'ok' if ok else 'rejected'}"] += 1
                if ok:
                    dense0 = dense_by_tokens(t, tokens)     # a different state from here on
                elif not viol:
                    viol = f"{op} raised {err}"
                continue
            applied.append(op)
            t = drv.ttn
            steps.append({"ok": ok, "err": err, "snap": snapshot(t), "raws": {k: np.array(v) for k, v in t._tensors.data.items()},
                          "centre": t.orthogonality_center_id})
            self._stats[f"{op[0]}:{op[2]}:{'ok' if ok else 'rejected'}"] += 1
            if viol:
                continue
            if not ok:
                viol = f"{op} raised {err}"
                continue
            w = well_formed(t)
            if w:
                viol = f"after {op}: {w}"
                continue
            want = t.root_id if op[0] == "ensure_root" else op[1]
            if t.orthogonality_center_id != want:
                viol = f"after {op}: recorded centre is {t.orthogonality_center_id}"
                continue
            d = dense_by_tokens(t, tokens)
            scale = max(1.0, float(np.max(np.abs(dense0))) if dense0.size else 1.0)
            if d.shape != dense0.shape or not np.allclose(d, dense0, rtol=1e-9, atol=1e-9 * scale):
                viol = f"after {op}: represented state changed"
                continue
            if cond:
                # badly scaled states: the tolerance is RELATIVE to the largest entry of the reference (an exactly zero state stays zero)
                ref = float(np.max(np.abs(dense0))) if dense0.size else 0.0
                dev = float(np.max(np.abs(d - dense0))) if dense0.size else 0.0
                if not np.all(np.isfinite(d)) or dev > 1e-9 * ref:
                    viol = f"after {op}: represented state changed (largest deviation {dev:.3e}, largest entry of the reference {ref:.3e})"
                    continue
            # tensors off the path of a move keep the attribute an earlier operation gave them:
            # once a shape-keeping operation has happened they may be zero-padded partial isometries
            defect = isometry_defects(t, want, keep_seen)
            self._maxdefect = max(getattr(self, "_maxdefect", 0.0), defect if defect <= ISO_TOL else 0.0)
            if not defect <= ISO_TOL:
                viol = f"after {op}: some tensor is not a{' partial' if keep_seen else 'n'} isometry toward the centre (defect {defect:.2e}; partial isometries accepted: {keep_seen})"
                continue
            if op[2] == "keep" and shapes_by_neighbour(t) != shapes_before:
                viol = f"after {op}: shapes changed in the shape-keeping mode"
                continue
            full = complex(np.vdot(d.reshape(-1), d.reshape(-1)))
            if any(nd.nopen_legs() != 1 for nd in t.nodes.values()):
                continue      # scalar_product is defined for one open leg per node (edits may have moved open legs)
            cp = copy.deepcopy(t)
            loc = cp.scalar_product(use_orthogonal_center=True)
            ful2 = copy.deepcopy(t).scalar_product(use_orthogonal_center=False)
            if abs(loc - full) > 1e-8 * max(1.0, abs(full)) or abs(ful2 - full) > 1e-8 * max(1.0, abs(full)):
                viol = f"after {op}: norm from the centre tensor {loc} / by contraction {ful2} differs from dense {full}"
            elif cond and not (abs(loc - full) <= 1e-9 * abs(full) and abs(ful2 - full) <= 1e-9 * abs(full)):
                viol = f"after {op}: norm from the centre tensor {loc} / by contraction {ful2} differs from dense {full} (relative tolerance 1e-9)"
        return {"ops": applied, "steps": steps, "atoms": drv.atoms, "viol": viol}

    def _cond_stats(self, shape, plan, virt):
        st = self._stats
        st["conditioning family: tensors"] += 1
        a = plan["axis"]
        if plan["struct"] == "zero":
            st["conditioning family: exactly zero tensors"] += 1
            return
        if plan["exp"] != 0.0:
            st["conditioning family: tensors scaled by 10**e, |e| <= 25"] += 1
        if a is None or plan["struct"] == "gauss":
            return
        cols = int(shape[a])
        rows = int(np.prod([int(d) for d in shape])) // cols
        lk = plan["logk"]
        st[f"conditioning family: grading 1e{3 * int(lk // 3)}..1e{3 * int(lk // 3) + 3}"] += 1
        if a in virt:
            st["conditioning family: graded w.r.t. a virtual leg"] += 1
            if rows >= 4 * cols:
                st["conditioning family: graded w.r.t. a virtual leg, matricisation tall (rows >= 4 x bond)"] += 1

    def impl(self, ctx, cases):
        self._stats = Counter()
        self._maxdefect = 0.0
        out = []
        for c in cases:
            try:
                out.append(self._run_case(c))
            except Exception as e:  # noqa
                import traceback
                out.append({"exception": f"{type(e).__name__}: {e}", "tb": traceback.format_exc()[-2000:], "ops": [], "steps": []})
        return out

    def model(self, ctx, cases, obs):
        exprs = []
        idms = []
        for ob in obs:
            idm = IdMap()
            idms.append(idm)
            exprs.append(wmodel.coq_crun_obs(ob["ops"], idm))
        vals = coq_eval(ctx, wmodel.IMPORTS, exprs, shard=10, scope="nat_scope", timeout=600)
        # hypotheses of the universal theorems C03_canonical_form_iso / C03_move_center_iso for this
        # instance: the build sequence satisfies ops_okb (hence, by C02_run_preserves_wf, the store
        # is well-formed when the first canonical_form starts) and the temporary identifier is fresh
        hyp = []
        for ob, idm in zip(obs, idms):
            build = []
            for o in ob["ops"]:
                if o[0] == "access":
                    continue        # no effect on the store's well-formedness; (chain classes) a build may contain accesses of the root
                if o[0] not in ("add_root", "add_child"):
                    break           # the store the first canonical-form operation starts from
                build.append(o)
            body = "[" + "; ".join("(" + wmodel.coq_op(o, idm) + ")" for o in build) + "]"
            rid = len(idm.r) + 1000
            hyp.append(f"(ops_okb empty_store {body} && wfb (fst (run empty_store {body})) && wfsb (fst (run empty_store {body})) && negb (amem {rid} (nodes (fst (run empty_store {body})))))%bool")
        hv = coq_eval(ctx, wmodel.IMPORTS.replace("TTN.Canon", "TTN.Canon TTN.Inv TTN.InvRun TTN.InvSem"), hyp, shard=40, scope="nat_scope", timeout=600)
        # [state-unchanged] the QR definitions recorded by every step (TTN/CanonValue.crun_new_defs): the premise of the
        # C03_*_state_unchanged theorems is the kernel contract of exactly these; compare() validates it numerically
        dexprs = []
        for ob, idm in zip(obs, idms):
            body = wmodel.coq_list([("(" + wmodel.coq_cop(o, idm) + ")") for o in ob["ops"]])
            dexprs.append(f"crun_new_defs {len(idm.r) + 1000} (empty_store, None) {body}")
        dv = coq_eval(ctx, wmodel.IMPORTS.replace("TTN.Canon", "TTN.Canon TTN.CanonValue"), dexprs, shard=10, scope="nat_scope", timeout=600)
        self._contract = [0, 0, []]
        out = []
        self._iso = [0, 0, []]
        for case, h in zip(cases, hv):
            self._iso[0] += 1
            if h is True:
                self._iso[1] += 1
            else:
                self._iso[2].append(f"seed {case['seed']}: hypotheses of the isometry theorems not met: {h}")
        for v, idm, dd in zip(vals, idms, dv):
            if isinstance(v, BaseException):
                out.append(v)
            elif isinstance(dd, BaseException):
                out.append(dd)
            else:
                if len(dd) != len(v):
                    dd = [None] * len(v)
                out.append([(ok, wmodel.model_obs_to_py(o, idm), [idm.r[c] for c in cen], iso, nd) for (ok, o, cen, iso), nd in zip(v, dd)])
        return out

    @staticmethod
    def _contract_defect(df, atab, atoms):
        """kernel contract def_holds for one recorded definition: SUM over the new bond of Q.R against the recorded input diagram"""
        kq, kr, kb, kind, ax, at, bd = df
        ax, at, bd = list(ax), list(at), list(bd)
        lhs = wmodel.eval_diagram({"axes": ax, "atoms": [kq, kr], "bnd": [kb]}, atab, atoms)
        rhs = wmodel.eval_diagram({"axes": ax, "atoms": at, "bnd": bd}, atab, atoms)
        if lhs.shape != rhs.shape:
            return float("inf")
        scale = max(1.0, float(np.max(np.abs(rhs))) if rhs.size else 1.0)
        return (float(np.max(np.abs(lhs - rhs))) if rhs.size else 0.0) / scale

    def compare(self, case, ob, mo):
        if "exception" in ob:
            return f"harness/implementation exception: {ob['exception']}"
        if len(mo) != len(ob["steps"]):
            return "step count differs"
        for j, (st, (mok, mobs, mcen, miso, mdefs)) in enumerate(zip(ob["steps"], mo)):
            op = ob["ops"][j]
            if st["ok"] != mok:
                return f"step {j} {op}: implementation {'accepted' if st['ok'] else 'rejected (' + str(st['err']) + ')'} but model {'accepted' if mok else 'rejected'}"
            d = wmodel.compare_snapshot(st["snap"], mobs)
            if d:
                return f"step {j} {op}: {d}"
            if (st["centre"] or None) != (mcen[0] if mcen else None):
                return f"step {j} {op}: centre impl {st['centre']} model {mcen}"
            if op[0] in ("canon", "move", "ensure", "ensure_root") and mok:
                self._iso[0] += 1
                if miso:
                    self._iso[1] += 1
                else:
                    self._iso[2].append(f"iso_check false after {op} (seed {case['seed']})")
            for kk, raw in st["raws"].items():
                val = wmodel.eval_diagram(mobs["tensors"][kk], mobs["atab"], ob["atoms"])
                if val.shape != raw.shape or not np.allclose(val, raw, rtol=1e-8, atol=1e-8 * max(1.0, float(np.max(np.abs(raw))) if raw.size else 1.0)):
                    return f"step {j} {op}: tensor {kk} differs from the model diagram"
            # [state-unchanged] the kernel contract Q.R = A (premise of the C03_*_state_unchanged theorems) for every QR
            # definition this canonical-form operation recorded, on the captured kernel factors, in the world after the step
            if op[0] in ("canon", "move", "ensure", "ensure_root") and mok:
                if mdefs is None:
                    return f"step {j} {op}: recorded definitions not available from the model"
                for df in mdefs:
                    if df[3] != 0:
                        return f"step {j} {op}: a canonical-form operation recorded a non-QR definition {df}"
                    self._contract[0] += 1
                    dfc = self._contract_defect(df, mobs["atab"], ob["atoms"])
                    if dfc > 1e-8:
                        self._contract[2].append(f"seed {case['seed']} step {j} {op}: Q.R != A for definition q={df[0]} r={df[1]} bond={df[2]} (defect {dfc:.2e})")
                        return f"step {j} {op}: kernel contract Q.R = A violated for the recorded definition q={df[0]} r={df[1]} bond wire {df[2]} (relative defect {dfc:.2e})"
                    self._contract[1] += 1
        return None

    def extra_obligations(self, ctx):
        n, ok, fails = getattr(self, "_iso", [0, 0, []])
        return n, ok, fails[:5]

    def oracle(self, case, ob):
        if "exception" in ob:
            return f"exception {ob['exception']}"
        return ob["viol"]
