"""C18 extension (ext-C18X): the driver as a state machine, tied to Driver/RunState.v.

Every "xsm" case drives REAL code through a history of commands and compares, after EVERY command, the complete
observable state with the Coq model `cnt_case` (evaluated with vm_compute):
  drivers   base  : a two-method subclass of `TimeEvolution` whose state is a mutable one-element list [counter]
                    (step: counter += 1 in place; operator (a, b, c): a*counter + b + i*c)
            ttn+ / ttn- : the same on top of the real `TTNTimeEvolution` (its evaluate_operators /
                    record_bond_dimensions / operator_result) with a fake state object offering bond_dims(),
                    with / without `record_bond_dim`
            exact : the real `ExactTimeEvolution` on one qubit: psi = |0>, H = (phi/dt) X, operators
                    (o+1) Z + 10 o; the recorded value of operator o after m steps is (o+1) cos(2 m phi) + 10 o,
                    which identifies (o, m) uniquely (m <= 44); the model is the counting model with operator
                    (1, 0, o), its cell CVal (m, o) is compared with that independent closed form (1e-9)
  grid      (T, dt) pairs x evaluation interval {1, 2, 3, 5, 'inf', n, n+1, 0} x container {single, [], [o], [o,o,o],
            {k:o}, {k:o,k:o,k:o}} x history {run; run,reset,run; run,run(other interval); run, caller changes its
            object, reset, run} — exhaustive in the thorough tier, a seed-rotated 1/32 in the quick tier
  compared  number of steps; after every command: whether it raised (only ZeroDivisionError is accepted, and only where
            the model raises), shape / every entry of `results` (exactly: zeros, values, times i*dt), dtype complex128,
            content of `state` and of `_initial_state`, `_initial_state is caller`, `state is caller`, the caller's
            object content, the bond-dimension record; before the first and after the last command: operator_result by
            key / position (incl. the positions len(ops), -1, len(ops)+1, -(len(ops)+2) and an unknown key) with and
            without realise (values and dtype realness), times() (values, float64), times(offset) for the offsets
            0.5, -1.25, 3 (an int), -0.1, 1e-3 positionally and by keyword (= the times cells of the model + offset, exactly,
            float64; raises exactly where times() raises), operator_results(realise=True).
"""
from __future__ import annotations

import math
from fractions import Fraction

import numpy as np

from lib import coq_q, coq_nat, coq_z, coq_list

IMPORTS = " From PTN Require Import Driver.RunState."

PHI = 0.035
DRIVERS = ["base", "ttn+", "ttn-", "exact"]
PAIRS = [(0.05, 1.0), (1.0, 1.0), (0.5, 0.25), (1.05, 0.5), (1.25, 0.25), (0.7, 0.1), (0.63, 0.3), (2.4, 0.2)]
KS = [1, 2, 3, 5, "inf", "n", "n+1", 0]
CONTS = ["single", "list0", "list1", "list3", "dict1", "dict3"]
HISTS = ["r", "rsr", "rr", "rwsr"]
OFFSETS = [0.5, -1.25, 3, -0.1, 1e-3]     # optional argument of times(): the recorded times shifted by the offset
DKEYS = [3, 0, 2]          # dictionary keys (numbers in the model, "k<number>" in the code): insertion order != sorted order


def generate(ctx, stream, budget_scale=1):
    cases = []
    i = 0
    full = ctx.thorough() or stream != "main"
    for drv in DRIVERS:
        for (T, dt) in PAIRS:
            for k in KS:
                for cont in CONTS:
                    for hist in HISTS:
                        i += 1
                        if not full and (i + ctx.seed) % 32 != 0:
                            continue
                        k2 = KS[(KS.index(k) + 1 + i % 5) % len(KS)]
                        cases.append({"kind": "xsm", "drv": drv, "T": T, "dt": dt, "k": k, "k2": k2, "cont": cont, "hist": hist})
    if stream != "main":
        rng = ctx.rng(stream)
        rng.shuffle(cases)
        cases = cases[: 400 * budget_scale]
    return cases


def n_ops(cont):
    return {"single": 1, "list0": 0, "list1": 1, "list3": 3, "dict1": 1, "dict3": 3}[cont]


def op_triples(case):
    if case["drv"] == "exact":
        return [(1, 0, r) for r in range(n_ops(case["cont"]))]
    return [(r + 2, 1 - r, r) for r in range(n_ops(case["cont"]))]


def history(case, n):
    def kk(k):
        return max(n, 1) if k == "n" else n + 1 if k == "n+1" else k
    k, k2 = kk(case["k"]), kk(case["k2"])
    h = case["hist"]
    if h == "r":
        return [("run", k)]
    if h == "rsr":
        return [("run", k), ("reset",), ("run", k)]
    if h == "rr":
        return [("run", k), ("run", k2)]
    if case["drv"] == "exact":
        return [("run", k), ("reset",), ("run", k2)]
    return [("run", k), ("write", 5), ("reset",), ("run", k2)]


def queries(case):
    nops = n_ops(case["cont"])
    q = []
    if case["cont"].startswith("dict"):
        q.append(("key", DKEYS[nops - 1]))
    q += [("key", 99), ("pos", 0), ("pos", nops), ("pos", -1), ("pos", nops + 1), ("pos", -(nops + 2))]
    return q


# ---------------------------------------------------------------------------------------------------
# implementation side
# ---------------------------------------------------------------------------------------------------
class FakeState:
    def __init__(self):
        self.c = 0

    def bond_dims(self):
        return {("a", "b"): self.c + 1, ("a", "c"): 2 * self.c + 1}

    def operator_expectation_value(self, op):
        a, b, c = op
        return (a * self.c + b) + 1j * c


def _classes():
    from pytreenet.time_evolution.time_evolution import TimeEvolution
    from pytreenet.time_evolution.ttn_time_evolution import TTNTimeEvolution

    class Counting(TimeEvolution):
        def run_one_time_step(self, **kw):
            self.state[0] += 1

        def evaluate_operator(self, op):
            a, b, c = op
            return (a * self.state[0] + b) + 1j * c

    class CountingTTN(TTNTimeEvolution):
        def run_one_time_step(self, **kw):
            self.state.c += 1
    return Counting, CountingTTN


def _content(drv, obj):
    """content of a state object as the number the model uses"""
    if drv == "base":
        return int(obj[0])
    if drv.startswith("ttn"):
        return int(obj.c)
    # one qubit: (cos m phi, -i sin m phi)
    ang = math.atan2(-obj[1].imag, obj[0].real)
    m = int(round(ang / PHI))
    want = np.array([math.cos(m * PHI), -1j * math.sin(m * PHI)])
    return m if np.allclose(obj, want, atol=1e-9, rtol=0) else ["undecodable", repr(obj)]


def _arr(a):
    return {"shape": list(a.shape), "dtype": str(a.dtype), "re": np.real(a).tolist(), "im": np.imag(a).tolist()}


def _access(ev, case):
    out = []
    for kind, v in queries(case):
        ident = f"k{v}" if kind == "key" else v
        pair = []
        for rl in (False, True):
            try:
                pair.append(_arr(ev.operator_result(ident, rl)))
            except (KeyError, IndexError, AssertionError) as e:
                pair.append(type(e).__name__)
        out.append(pair)
    try:
        t = _arr(ev.times())
    except AssertionError as e:
        t = type(e).__name__
    try:
        r = _arr(ev.operator_results(True))
    except AssertionError as e:
        r = type(e).__name__
    offs = []
    for off in OFFSETS:
        try:
            offs.append(_arr(ev.times(off)))
        except AssertionError as e:
            offs.append(type(e).__name__)
    try:
        offs.append(_arr(ev.times(offset=OFFSETS[1])))      # by keyword
    except AssertionError as e:
        offs.append(type(e).__name__)
    return [out, t, r, offs]


def impl(case):
    from pytreenet.time_evolution.ttn_time_evolution import TTNTimeEvolutionConfig
    from pytreenet.time_evolution.exact_time_evolution import ExactTimeEvolution
    Counting, CountingTTN = _classes()
    drv, dt, T = case["drv"], case["dt"], case["T"]
    trip = op_triples(case)
    if drv == "exact":
        Z = np.diag([1.0, -1.0]).astype(complex)
        oplist = [(o + 1) * Z + 10 * o * np.eye(2) for (_, _, o) in trip]
    else:
        oplist = list(trip)
    cont = case["cont"]
    ops = oplist[0] if cont == "single" else oplist if cont.startswith("list") else {f"k{DKEYS[j]}": o for j, o in enumerate(oplist)}
    if drv == "base":
        caller = [0]
        ev = Counting(caller, dt, T, ops)
    elif drv.startswith("ttn"):
        caller = FakeState()
        ev = CountingTTN(caller, dt, T, ops, TTNTimeEvolutionConfig(record_bond_dim=(drv == "ttn+")))
    else:
        caller = np.array([1.0, 0.0], dtype=complex)
        X = np.array([[0, 1], [1, 0]], dtype=complex)
        ev = ExactTimeEvolution(caller, (PHI / dt) * X, dt, T, ops)
    n = int(ev.num_time_steps)
    ob = {"n": n, "before": _access(ev, case), "trace": []}
    for cmd in history(case, n):
        raised = False
        try:
            if cmd[0] == "run":
                ev.run(evaluation_time=("inf" if cmd[1] == "inf" else cmd[1]), pgbar=False)
            elif cmd[0] == "reset":
                ev.reset_to_initial_state()
            elif drv == "base":
                caller[0] += cmd[1]
            else:
                caller.c += cmd[1]
        except ZeroDivisionError:
            raised = True
        res = None if ev._results is None else _arr(ev._results)
        bond = getattr(ev, "bond_dims", None)
        if drv.startswith("ttn"):
            same = ev.operator_result("bond_dim")
            if same is not bond:
                raise AssertionError("operator_result('bond_dim') is not the bond record")
        ob["trace"].append({"raised": raised, "res": res, "state": _content(drv, ev.state),
                            "init": _content(drv, ev._initial_state), "caller": _content(drv, caller),
                            "bond": None if bond is None else [list(v) for v in bond.values()],
                            "init_is_caller": ev._initial_state is caller, "state_is_caller": ev.state is caller,
                            "initial_state_prop": ev.initial_state is ev._initial_state})
    ob["after"] = _access(ev, case)
    return ob


# ---------------------------------------------------------------------------------------------------
# model side
# ---------------------------------------------------------------------------------------------------
def _evalt(k):
    if k == "inf":
        return "Inf"
    return f"(Every {coq_nat(k)})"


def model_expr(case, n_impl):
    q = Fraction(case["T"] / case["dt"])
    trip = ["(" + ", ".join(coq_z(x) for x in t) + ")%Z" for t in op_triples(case)]
    cont = case["cont"]
    if cont == "single":
        c = f"(Single {trip[0]})"
    elif cont.startswith("list"):
        c = "(OList " + coq_list(trip) + ")"
    else:
        c = "(ODict " + coq_list([f"({coq_nat(DKEYS[j])}, {t})" for j, t in enumerate(trip)]) + ")"
    xs = []
    for cmd in history(case, n_impl):
        if cmd[0] == "run":
            xs.append(f"inl (Run {_evalt(cmd[1])})")
        elif cmd[0] == "reset":
            xs.append("inl Reset")
        else:
            xs.append(f"inr {coq_z(cmd[1])}%Z")
    ids = [f"ByKey {coq_nat(v)}" if kind == "key" else f"ByPos {coq_z(v)}%Z" for kind, v in queries(case)]
    rec = "true" if case["drv"] == "ttn+" else "false"
    return (f"(let n := Z.to_nat (num_steps {coq_q(q)}) in (n, cnt_case n {c} {rec} "
            f"({coq_list(xs)} : list (cmd + Z)%type) {coq_list(ids)}))")


# ---------------------------------------------------------------------------------------------------
# comparison
# ---------------------------------------------------------------------------------------------------
def _cell_ok(case, cell, re, im, real_of=None):
    """is the entry re + i im of the code the model cell (tag, x, y)?"""
    tag, x, y = (int(v) for v in cell)
    if tag == 0:
        return re == 0.0 and im == 0.0
    if tag == 2:
        return re == x * case["dt"] and im == 0.0
    if case["drv"] != "exact":
        return re == float(x) and im == float(y)
    if real_of is not None:            # realised row of the exact driver: (m, o) is in the unrealised cell
        x, y = int(real_of[1]), int(real_of[2])
    want = (y + 1) * math.cos(2 * x * PHI) + 10 * y
    return abs(re - want) <= 1e-9 and abs(im) <= 1e-9


def _rows_ok(case, rows, arr, real_rows=None):
    """rows: model cells; arr: {"shape", "re", "im"} of a 1-d or 2-d array"""
    if len(arr["shape"]) == 1:
        rows, re, im = [rows], [arr["re"]], [arr["im"]]
        real_rows = None if real_rows is None else [real_rows]
    else:
        re, im = arr["re"], arr["im"]
    if len(arr["shape"]) == 2 and arr["shape"] != [len(rows), len(rows[0]) if rows else arr["shape"][1]]:
        return False
    if len(re) != len(rows):
        return False
    for r, row in enumerate(rows):
        if len(row) != len(re[r]):
            return False
        for j, cell in enumerate(row):
            if not _cell_ok(case, cell, re[r][j], im[r][j], None if real_rows is None else real_rows[r][j]):
                return False
    return True


def _unsome(v):
    if v is None:
        return None
    if isinstance(v, tuple) and v and v[0] == "Some":
        return v[1] if len(v) == 2 else tuple(v[1:])
    return v


def _access_cmp(case, got, mo, where, plain_tab=None):
    m_ids, m_times, m_all = mo
    g_ids, g_times, g_all = got[:3]
    g_offs = got[3] if len(got) > 3 else []
    for (kind, v), gp, mp in zip(queries(case), g_ids, m_ids):
        plain = _unsome(mp[0])
        for rl, g, m in ((False, gp[0], mp[0]), (True, gp[1], mp[1])):
            m = _unsome(m)
            what = f"{where}: operator_result({kind} {v}, realise={rl})"
            if m is None:
                if not isinstance(g, str):
                    return f"{what} returns a row, the model raises"
                continue
            if isinstance(g, str):
                return f"{what} raises {g}, the model returns a row"
            flag, row = m
            if (g["dtype"] == "float64") != bool(flag) or g["dtype"] not in ("float64", "complex128"):
                return f"{what}: dtype {g['dtype']}, model realness {flag}"
            if not _rows_ok(case, row, g, plain[1] if rl else None):
                return f"{what}: code {g['re']} + i{g['im']}, model cells {row}"
    mt = _unsome(m_times)
    if (mt is None) != isinstance(g_times, str):
        return f"{where}: times(): code {g_times}, model {mt}"
    if mt is not None and (g_times["dtype"] != "float64" or not _rows_ok(case, mt, g_times)):
        return f"{where}: times(): code {g_times}, model cells {mt}"
    # times(offset): the model's times() cells shifted by the offset (the same single float addition as the code)
    for off, g in zip(OFFSETS + [OFFSETS[1]], g_offs):
        if (mt is None) != isinstance(g, str):
            return f"{where}: times({off}): code {g}, model {mt}"
        if mt is None:
            continue
        want = [(0.0 if int(cell[0]) == 0 else int(cell[1]) * case["dt"]) + off for cell in mt]
        if g["dtype"] != "float64" or g["shape"] != [len(want)] or g["re"] != want or any(x != 0.0 for x in g["im"]):
            return f"{where}: times({off}): code {g['re']} ({g['dtype']}), model times + offset {want}"
    ma = _unsome(m_all)
    if (ma is None) != isinstance(g_all, str):
        return f"{where}: operator_results(True): code {g_all}, model {ma}"
    if ma is not None:
        flag, tab = ma
        if g_all["dtype"] != "float64" or flag is not True or g_all["shape"][0] != len(tab):
            return f"{where}: operator_results(True): dtype {g_all['dtype']} shape {g_all['shape']}, model {len(tab)} rows"
        if tab and not _rows_ok(case, tab, g_all, plain_tab):
            return f"{where}: operator_results(True): code {g_all['re']}, model cells {tab}"
    return None


def compare(case, ob, mo):
    if "exception" in ob:
        return f"[ext-C18X] implementation raised {ob['exception']} where the state-machine model runs"
    n_m, (trace, after, before) = mo
    if ob["n"] != n_m:
        return f"[ext-C18X] num_time_steps: impl {ob['n']} model {n_m}"
    if len(trace) != len(ob["trace"]):
        return "[ext-C18X] history length differs"
    hist = history(case, ob["n"])
    for step, (cmd, g, m) in enumerate(zip(hist, ob["trace"], trace)):
        where = f"[ext-C18X] after command {step} {cmd} of {[c[0] for c in hist]}"
        raised, tab, state, init, bond, init_is0, state_is0 = m
        tab, bond = _unsome(tab), _unsome(bond)
        if bool(raised) != g["raised"]:
            return f"{where}: raised: code {g['raised']} model {raised}"
        if (tab is None) != (g["res"] is None):
            return f"{where}: results exist: code {g['res'] is not None} model {tab is not None}"
        if tab is not None:
            if g["res"]["dtype"] != "complex128":
                return f"{where}: results dtype {g['res']['dtype']}"
            if g["res"]["shape"] != [len(tab), len(tab[0])]:
                return f"{where}: results shape {g['res']['shape']} model {[len(tab), len(tab[0])]}"
            if not _rows_ok(case, tab, g["res"]):
                return f"{where}: results: code {g['res']['re']} + i{g['res']['im']}, model cells {tab}"
        if g["state"] != int(state):
            return f"{where}: content of `state`: code {g['state']} model {state}"
        if g["init"] != int(init) or g["caller"] != int(init):
            return f"{where}: content of `_initial_state` / of the caller's object: code {g['init']} / {g['caller']} model {init}"
        if g["init_is_caller"] is not bool(init_is0) or g["state_is_caller"] is not bool(state_is0) or not g["initial_state_prop"]:
            return (f"{where}: object identities: `_initial_state is caller` {g['init_is_caller']} (model {init_is0}), "
                    f"`state is caller` {g['state_is_caller']} (model {state_is0})")
        mb = None if bond is None else [[int(x) for x in row] for row in bond]
        if g["bond"] != mb:
            return f"{where}: bond-dimension record: code {g['bond']} model {mb}"
    last = _unsome(trace[-1][1])      # the unrealised array: (m, o) of the realised entries of the exact driver
    return (_access_cmp(case, ob["before"], before, "[ext-C18X] before the first command")
            or _access_cmp(case, ob["after"], after, "[ext-C18X] after the history", None if last is None else last[:-1]))


# ---------------------------------------------------------------------------------------------------
# property oracle (from the property text, independent of the model): operators evaluated after 0, k, 2k, ...
# steps (after the last step for 'inf') with times j*dt, the caller's object never modified by the driver, reset
# restores the initial state and a second run reproduces the first record
# ---------------------------------------------------------------------------------------------------
def oracle(case, ob):
    if "exception" in ob:
        return f"raised {ob['exception']}"
    n = ob["n"]
    hist = history(case, n)
    written = 0
    first = None
    for step, (cmd, g) in enumerate(zip(hist, ob["trace"])):
        if cmd[0] == "write":
            written += cmd[1]
        if g["caller"] != written:
            return f"the caller's state object was modified (content {g['caller']}, expected {written}) by {cmd}"
        if cmd[0] == "reset" and g["state"] != written:
            return f"reset does not restore the initial state ({g['state']}, expected {written})"
        if cmd[0] == "run" and not g["raised"] and cmd[1] != 0:
            k = cmd[1]
            start = g["state"] - n
            steps = [n] if k == "inf" else list(range(0, n + 1, k))
            res = g["res"]
            if res["shape"] != [n_ops(case["cont"]) + 1, len(steps)]:
                return f"results of shape {res['shape']}, expected {[n_ops(case['cont']) + 1, len(steps)]}"
            if res["re"][-1] != [s * case["dt"] for s in steps]:
                return f"times {res['re'][-1]}, expected {[s * case['dt'] for s in steps]}"
            for r, (a, b, c) in enumerate(op_triples(case)):
                for j, s in enumerate(steps):
                    m = start + s
                    if case["drv"] == "exact":
                        okv = abs(res["re"][r][j] - ((c + 1) * math.cos(2 * m * PHI) + 10 * c)) <= 1e-9
                    else:
                        okv = res["re"][r][j] == a * m + b and res["im"][r][j] == c
                    if not okv:
                        return f"operator {r}, column {j}: {res['re'][r][j]} is not its value after {m} steps"
            if first is None:
                first = (k, res)
            elif case["hist"] == "rsr" and (first[0] != k or not _same(first[1], res, case)):
                return "run; reset; run does not reproduce the first record"
    # times(offset): the stored times shifted by the offset
    for when in ("before", "after"):
        acc = ob[when]
        if len(acc) > 3 and not isinstance(acc[1], str):
            for off, g in zip(OFFSETS + [OFFSETS[1]], acc[3]):
                want = [t + off for t in acc[1]["re"]]
                if isinstance(g, str) or g["re"] != want:
                    return (f"times({off}) {when} the history {[c[0] for c in hist]} returns {g if isinstance(g, str) else g['re']}, "
                            f"the stored times {acc[1]['re']} shifted by {off} are {want}")
    return None


def _same(a, b, case):
    if case["drv"] == "exact":
        return a["shape"] == b["shape"] and np.allclose(a["re"], b["re"], atol=1e-12, rtol=0) and np.allclose(a["im"], b["im"], atol=1e-12, rtol=0)
    return a == b
