"""[ext-C01D] C01, pipeline model: tie of coq/theories/SD/Pipeline.v to the BIPARTITE driver of
pytreenet/ttno/state_diagram.py.

The implementation is run with a recorder wrapped (at run time, /repo untouched) around
`StateDiagram.get_state_diagram_compound`, `combine_subtrees` and `cut_and_optimise`: after every call the
diagram is exported through its public attributes (c01.export_sd) and reduced to the canonical form already used
for BASE (per node the ORDERED list of (label, lambda, gamma, bond indices of the vertices), per edge the number of
vertices; uuids renamed away).  The model's `pipeline_trace` (state after the compound diagram, after every
combine_subtrees, after every cut_and_optimise, in call order) is compared with it step by step INSIDE Coq
(`trace_verdicts`), exactly; the model's states must also satisfy `sd_wf`.  Where the implementation raises in a
step, or leaves a diagram that is not well-indexed (a hyperedge without vertex on the cut edge), the model must
return None at that step.

Universal layer on top of this tie (coq/theories/SD/PipelineProofs.v, PipelineInv.v, statements in Props/C01.v):
C01_cut_step_sound (one cut preserves sd_denote for every tree / edge / diagram satisfying cut_pre) and
C01_bipartite_exact (the whole driver is exact for every tree and every term list with pairwise distinct operator
strings).  Per instance (I): `pipeline_checks` = the decidable preconditions of the step theorems evaluated before
every step of the model's run; with C01_pipeline_exact_checked_partial this is a kernel-checked proof that the model's
final diagram (= the implementation's, by the tie) denotes the Hamiltonian also where a string is repeated with
different coefficients.
"""
from __future__ import annotations

import contextlib
from fractions import Fraction

from lib import coq_eval, coq_list, coq_z

IMPORTS = ("From Coq Require Import List Arith Bool QArith ZArith. "
           "From PTN Require Import Tree.RTree SD.Model SD.Core SD.Pipeline. Import ListNotations.")
KIND = {"base": 0, "combine": 1, "cut": 2}


def applies(case):
    return case.get("kind") == "ham" and case.get("method") == "BIPARTITE" and not case.get("notie")


@contextlib.contextmanager
def recorder(case, ob):
    """wraps the three driver-level methods of StateDiagram for the duration of one from_hamiltonian call and stores
    ob['c01d_steps'] = [[kind, parent, current, canonical form | None, malformed text | None], ...]"""
    if not applies(case):
        yield
        return
    from pytreenet.ttno.state_diagram import StateDiagram
    from props import c01
    steps = []
    o_comb = StateDiagram.combine_subtrees
    o_cut = StateDiagram.cut_and_optimise
    o_comp = StateDiagram.__dict__["get_state_diagram_compound"]

    def snap(kind, parent, current, sdg):
        try:
            ex = c01.export_sd(sdg, case)
            if ex["malformed"]:
                steps.append([kind, parent, current, None, ex["malformed"]])
            else:
                steps.append([kind, parent, current, c01.C01._impl_canon(case, ex), None])
        except Exception as e:  # noqa  (a diagram the exporter cannot even walk)
            steps.append([kind, parent, current, None, f"export failed: {type(e).__name__}: {e}"])

    def comp(cls, sds):
        r = o_comp.__func__(cls, sds)
        if r is not None:
            snap("base", None, None, r)
        return r

    def comb(self, local_hyperedges, parent):
        cur = local_hyperedges[0].corr_node_id if local_hyperedges else None
        o_comb(self, local_hyperedges, parent)
        snap("combine", parent, cur, self)

    def cut(self, local_vs, current_node, parent):
        o_cut(self, local_vs, current_node, parent)
        snap("cut", parent, current_node, self)
    StateDiagram.combine_subtrees = comb
    StateDiagram.cut_and_optimise = cut
    StateDiagram.get_state_diagram_compound = classmethod(comp)
    try:
        yield
    finally:
        StateDiagram.combine_subtrees = o_comb
        StateDiagram.cut_and_optimise = o_cut
        StateDiagram.get_state_diagram_compound = o_comp
        ob["c01d_steps"] = steps


def expected_calls(case):
    """the driver's call sequence as the property text describes it (BFS levels, per level all combines then all
    cuts), independent of the model: [(kind, parent, child)].  Terms with prefactor 0 are dropped before the compound
    diagram is built (repo commit 2e422fd); when none remains the BASE diagram of the full list is returned."""
    from props import c01
    ch = case["children"]
    out = [("base", None, None)]
    if all(c01.term_frac(tm) == 0 for tm in case["terms"]):
        return out          # every prefactor is 0: from_hamiltonian_base of the full term list, no driver loop
    lv = [(0, c) for c in ch[0]]
    while lv:
        out += [("combine", c01.nid(p), c01.nid(c)) for p, c in lv]
        out += [("cut", c01.nid(p), c01.nid(c)) for p, c in lv]
        lv = [(c, g) for _p, c in lv for g in ch[c]]
    return out


def coq_canon(cn):
    per_node, counts = cn
    nodes = coq_list(per_node, lambda e: "(%d, %s)" % (
        e[0], coq_list(e[1], lambda h: "(%d, (%s%%Z, %d%%positive), %d, %s)" % (h[0], coq_z(h[1][0]), h[1][1], h[2], coq_list(h[3], str)))))
    return f"({nodes}, {coq_list(counts, lambda kv: '(%d, %d)' % kv)})"


def observed_canons(ob, ncalls):
    """canonical forms up to and including the first step that has none (malformed export) or, when the run raised,
    one more None for the call that did not return"""
    out = []
    for _k, _p, _c, cn, _bad in ob.get("c01d_steps", []):
        out.append(cn)
        if cn is None:
            return out
    if "exception" in ob and len(out) < ncalls:
        out.append(None)          # the call that did not return
    return out


def eval_spread(ctx, imports, exprs, shard, scope):
    """coq_eval with the expressions dealt round-robin to the shards (coq_eval cuts the list into contiguous chunks that
    are evaluated side by side: a block of expensive cases generated one after the other would all land in one chunk)"""
    n = len(exprs)
    k = max(1, -(-n // shard))
    order = [i for r in range(k) for i in range(r, n, k)]
    vals = coq_eval(ctx, imports, [exprs[i] for i in order], shard=max(1, -(-n // k)), scope=scope)
    out = [None] * n
    for i, v in zip(order, vals):
        out[i] = v
    return out


def run_model(ctx, cases, obs):
    """evaluates the model's trace against the recorded steps; stores ob['c01d_model'] = (padded?, verdicts, trace length,
    step checks, final sd_check) for every BIPARTITE case"""
    from props import c01
    idx, exprs = [], []
    for i, (c, ob) in enumerate(zip(cases, obs)):
        if not applies(c) or not isinstance(ob, dict) or "c01d_steps" not in ob:
            continue
        cans = observed_canons(ob, len(expected_calls(c)))
        os_ = coq_list(cans, lambda cn: "(@None canon)" if cn is None else f"Some {coq_canon(cn)}")
        exprs.append(
            f"(let t := {c01.coq_tree(c)} in "
            f"match pad_ham idlab_std {c01.coq_dims(c)} t {c01.coq_uterms(c)} with "
            f"| Some H => let tr := pipeline_trace t H in "
            f"(true, trace_verdicts t tr {os_}, length tr, pipeline_checks t H, "
            f"match from_hamiltonian_bipartite t H with Some d => Some (sd_check t H d) | None => None end) "
            f"| None => (false, [], 0, [], None) end)")
        idx.append(i)
    vals = eval_spread(ctx, IMPORTS, exprs, shard=25, scope="nat_scope")
    for i, v in zip(idx, vals):
        obs[i]["c01d_model"] = v if not isinstance(v, BaseException) else {"error": str(v)[:800]}
    return len(idx)


def compare(case, ob):
    """None or the first difference between the model's trace and the recorded run"""
    if not applies(case) or "harness_error" in ob:
        return None
    if "c01d_steps" not in ob:
        return "[pipeline] the recorder did not run"
    mo = ob.get("c01d_model")
    if mo is None:
        return "[pipeline] no model value"
    if isinstance(mo, dict):
        return f"[pipeline] model evaluation failed: {mo['error']}"
    padok, verdicts, tlen, _checks, _final = mo
    if not padok:
        return None          # padding mismatch is reported by the main tie
    steps = ob["c01d_steps"]
    calls = expected_calls(case)
    for k, (kind, p, c, _cn, _bad) in enumerate(steps):
        if k >= len(calls) or (kind, p, c) != calls[k] and not (kind == "combine" and c is None and calls[k][0] == "combine"):
            return f"[pipeline] call {k} of the implementation is {kind}({p},{c}), the BFS driver should call {calls[k] if k < len(calls) else None}"
    if tlen != len(calls):
        return f"[pipeline] model trace has {tlen} states for {len(calls)} driver calls"
    cans = observed_canons(ob, len(calls))
    if len(verdicts) != len(cans):
        return f"[pipeline] {len(cans)} recorded states but {len(verdicts)} verdicts (model trace length {tlen})"
    for k, v in enumerate(verdicts):
        if v != 3:
            kind, p, c = calls[k] if k < len(calls) else ("?", None, None)
            why = {0: "the model fails (None) where the implementation returns a well-indexed diagram",
                   1: ("the diagrams differ (canonical form)" if cans[k] is not None else
                       "the model returns a diagram where the implementation raises / leaves a diagram that is not well-indexed"),
                   2: "canonical forms agree but the model's state is not sd_wf"}.get(v, f"verdict {v}")
            bad = steps[k][4] if k < len(steps) else ob.get("exception")
            return f"[pipeline] after call {k} = {kind}({p},{c}): {why}" + (f" [{bad}]" if bad else "")
    complete = len(cans) == len(calls) and all(cn is not None for cn in cans)
    if complete and "exception" not in ob:
        final = steps[-1][3]
        from props import c01
        if c01.C01._impl_canon(case, ob["sd"]) != final and not ob["sd"].get("malformed"):
            return "[pipeline] the returned diagram differs from the diagram after the last driver call"
    return None


def instance_obligation(case, ob):
    """(counts?, ok?, message): the step-theorem preconditions hold before every step of the model's run and the
    model's final diagram is certified"""
    mo = ob.get("c01d_model")
    if not applies(case) or mo is None or isinstance(mo, dict) or not mo[0]:
        return False, False, None
    _padok, verdicts, tlen, checks, final = mo
    if len(verdicts) != tlen or any(v != 3 for v in verdicts) or final is None:
        return False, False, None          # run incomplete (raised / not well-indexed): nothing to certify
    fin = final[1] if isinstance(final, tuple) else final
    if all(checks) and fin is True:
        return True, True, None
    return True, False, f"pipeline step preconditions {checks}, sd_check of the model's diagram {fin}"
