"""[ext-C01T] C01, TREE method: tie of coq/theories/SD/TreeCmp.v to StateDiagram.from_hamiltonian_tree_comparison
(pytreenet/ttno/state_diagram.py: from_single_term, add_single_term, _mark_contained_vertices,
_find_and_mark_new_vertex, _find_new_he, _add_hyperedges(_rec), _find_vertices_connecting_to_he and the marker
fields of Vertex).

The implementation is run with a recorder wrapped (at run time, /repo untouched) around
`StateDiagram.from_single_term` and `StateDiagram.add_single_term`: after EVERY call the diagram is exported through
its public attributes (c01.export_sd) and reduced to
  * the canonical form already used for BASE / BIPARTITE (per node the ORDERED list of (label, lambda, gamma, bond
    indices of the vertices), per edge the number of vertices; uuids renamed away),
  * per edge and per vertex of its collection the ORDERED list Vertex.hyperedges as (node, position in the node's
    collection) (the marking walk iterates over it),
  * the number of marker fields left set (Vertex.contained / new / _already_checked).
The model's `tree_trace` (state after from_single_term and after every add_single_term) is compared with it step by
step INSIDE Coq (`tree_verdicts`), exactly; the model's states must also satisfy `sd_wf`.  The iteration order of the
dict `reference_tree.nodes` (it decides the order of the leaf walks and of _add_hyperedges) is read off the object the
implementation was given and handed to the model.  Where the implementation raises in a call the model must return
None at that call.  Known-finding cases (non-unit coefficients, repeated terms) are tied like all others: the model is
literal, it reproduces the wrong diagrams.

Per instance (I): `tree_checks` = after every add_single_term of the MODEL's run the new state is sd_wf and denotes
(old denotation) + (the added term); with C01_tree_exact_checked_partial this is a kernel-checked proof that the
model's final diagram (= the implementation's, by the tie) denotes the Hamiltonian.
"""
from __future__ import annotations

import contextlib

from lib import coq_list
from props import c01d

IMPORTS = ("From Coq Require Import List Arith Bool QArith ZArith. "
           "From PTN Require Import Tree.RTree SD.Model SD.Core SD.Pipeline SD.TreeCmp. Import ListNotations.")


def applies(case):
    return case.get("kind") == "ham" and case.get("method") == "TREE" and not case.get("notie")


def vcanon(case, ex):
    """per non-root node c (pre-order) and per vertex of the edge above c (collection order): Vertex.hyperedges as
    [(node, position in the node's collection)]"""
    from props import c01
    pre = c01.preorder(case["children"])
    hpos, cnt = {}, {}
    for hid, v, _lab, _lam, _gam, _verts in ex["hes"]:
        hpos[hid] = (v, cnt.get(v, 0))
        cnt[v] = cnt.get(v, 0) + 1
    return [(c, [[hpos[h] for h in hs] for _vid, e, hs, _idx in ex["vxs"] if e == c]) for c in pre[1:]]


def nmarked(sdg):
    n = 0
    for coll in sdg.vertex_colls.values():
        for v in coll.contained_vertices:
            n += int(bool(v.contained)) + int(bool(v.new)) + int(bool(v._already_checked))
    return n


@contextlib.contextmanager
def recorder(case, ob):
    """wraps from_single_term / add_single_term of StateDiagram for the duration of one from_hamiltonian call and stores
    ob['c01t_steps'] = [[kind, canonical form | None, vertex form | None, markers set, malformed text | None], ...]
    and ob['c01t_order'] = iteration order of reference_tree.nodes (node numbers)"""
    if not applies(case):
        yield
        return
    from pytreenet.ttno.state_diagram import StateDiagram
    from props import c01
    steps = []
    o_first = StateDiagram.__dict__["from_single_term"]
    o_add = StateDiagram.add_single_term

    def snap(kind, sdg):
        try:
            if "c01t_order" not in ob:
                ob["c01t_order"] = [int(str(k)[1:]) for k in sdg.reference_tree.nodes.keys()]
            ex = c01.export_sd(sdg, case)
            if ex["malformed"]:
                steps.append([kind, None, None, 0, ex["malformed"]])
            else:
                steps.append([kind, c01.C01._impl_canon(case, ex), vcanon(case, ex), nmarked(sdg), None])
        except Exception as e:  # noqa  (a diagram the exporter cannot even walk)
            steps.append([kind, None, None, 0, f"export failed: {type(e).__name__}: {e}"])

    def first(cls, term, reference_tree):
        r = o_first.__func__(cls, term, reference_tree)
        snap("first", r)
        return r

    def add(self, term):
        o_add(self, term)
        snap("add", self)
    StateDiagram.from_single_term = classmethod(first)
    StateDiagram.add_single_term = add
    try:
        yield
    finally:
        StateDiagram.from_single_term = o_first
        StateDiagram.add_single_term = o_add
        ob["c01t_steps"] = steps


def coq_vcanon(vc):
    return coq_list(vc, lambda e: "(%d, %s)" % (e[0], coq_list(e[1], lambda hs: coq_list(hs, lambda p: "(%d, %d)" % tuple(p)))))


def observed(ob, ncalls):
    """observations up to and including the first call that has none (malformed export) or, when the run raised,
    one more None for the call that did not return"""
    out = []
    for _k, cn, vc, nm, _bad in ob.get("c01t_steps", []):
        out.append(None if cn is None else (cn, vc, nm))
        if cn is None:
            return out
    if "exception" in ob and len(out) < ncalls:
        out.append(None)
    return out


def run_model(ctx, cases, obs):
    """evaluates the model's trace against the recorded calls; stores ob['c01t_model'] = (padded?, verdicts, trace
    length, step checks, final sd_check)"""
    from props import c01
    idx, exprs = [], []
    for i, (c, ob) in enumerate(zip(cases, obs)):
        if not applies(c) or not isinstance(ob, dict) or "c01t_steps" not in ob:
            continue
        order = ob.get("c01t_order")
        if order is None:        # no call returned: any order with the right node set lets the model answer
            order = c01.preorder(c["children"])
        os_ = coq_list(observed(ob, len(c["terms"])),
                       lambda o: "(@None tobs)" if o is None else f"Some ({c01d.coq_canon(o[0])}, {coq_vcanon(o[1])}, {int(o[2])})")
        # the step checks are an obligation only outside the two known-finding classes (there the literal model is wrong
        # like the code): not evaluated for those cases
        checks = ("tree_checks t order H, match from_hamiltonian_tree t order H with Some d => Some (sd_check t H d) | None => None end"
                  if c01.C01._class_of(c) is None else "@nil bool, @None bool")
        exprs.append(
            f"(let t := {c01.coq_tree(c)} in let order := {coq_list(order, str)} in "
            f"match pad_ham idlab_std {c01.coq_dims(c)} t {c01.coq_uterms(c)} with "
            f"| Some H => let tr := tree_trace t order H in "
            f"(true, tree_verdicts t tr {os_}, length tr, {checks}) "
            f"| None => (false, [], 0, [], None) end)")
        idx.append(i)
    if not exprs:
        return 0
    vals = c01d.eval_spread(ctx, IMPORTS, exprs, shard=25, scope="nat_scope")
    for i, v in zip(idx, vals):
        obs[i]["c01t_model"] = v if not isinstance(v, BaseException) else {"error": str(v)[:800]}
    return len(idx)


WHY = {0: "the model fails (None) where the implementation returns a well-indexed diagram",
       2: "canonical forms agree but the model's state is not sd_wf",
       4: "canonical forms agree but Vertex.hyperedges differ (order or content)",
       5: "diagrams agree but the number of marker fields left set differs"}


def compare(case, ob):
    """None or the first difference between the model's trace and the recorded run"""
    if not applies(case) or "harness_error" in ob:
        return None
    if "c01t_steps" not in ob:
        return "[tree] the recorder did not run"
    mo = ob.get("c01t_model")
    if mo is None:
        return "[tree] no model value"
    if isinstance(mo, dict):
        return f"[tree] model evaluation failed: {mo['error']}"
    padok, verdicts, tlen, _checks, _final = mo
    if not padok:
        return None          # padding mismatch is reported by the main tie
    steps = ob["c01t_steps"]
    ncalls = len(case["terms"])
    kinds = [s[0] for s in steps]
    if kinds != (["first"] + ["add"] * (len(kinds) - 1))[:len(kinds)] or len(kinds) > ncalls:
        return f"[tree] call sequence of the implementation {kinds[:6]}... for {ncalls} terms"
    order = ob.get("c01t_order")
    if order is not None and sorted(order) != list(range(len(case["children"]))):
        return f"[tree] reference_tree.nodes iterates over {order}"
    cans = observed(ob, ncalls)
    if "exception" not in ob and len(steps) != ncalls:
        return f"[tree] {len(steps)} recorded calls for {ncalls} terms"
    if len(verdicts) != len(cans):
        return f"[tree] {len(cans)} recorded states but {len(verdicts)} verdicts (model trace length {tlen})"
    for k, v in enumerate(verdicts):
        if v != 3:
            why = WHY.get(v) or ("the diagrams differ (canonical form)" if cans[k] is not None else
                                 "the model returns a diagram where the implementation raises / leaves a diagram that is not well-indexed")
            bad = steps[k][4] if k < len(steps) else ob.get("exception")
            return f"[tree] after call {k} ({'from_single_term' if k == 0 else 'add_single_term of term %d' % k}): {why}" + (f" [{bad}]" if bad else "")
    if "exception" not in ob and tlen != ncalls:
        return f"[tree] model trace has {tlen} states for {ncalls} calls"
    if "exception" not in ob and steps and steps[-1][1] is not None and ob.get("sd") and not ob["sd"].get("malformed"):
        from props import c01
        if c01.C01._impl_canon(case, ob["sd"]) != steps[-1][1]:
            return "[tree] the returned diagram differs from the diagram after the last add_single_term"
    return None


def instance_obligation(case, ob):
    """(counts?, ok?, message): every step of the model's run adds exactly its term (tree_checks) and the model's
    final diagram is certified"""
    mo = ob.get("c01t_model")
    if not applies(case) or mo is None or isinstance(mo, dict) or not mo[0]:
        return False, False, None
    _padok, verdicts, tlen, checks, final = mo
    if len(verdicts) != tlen or any(v != 3 for v in verdicts) or final is None:
        return False, False, None          # run incomplete: nothing to certify
    fin = final[1] if isinstance(final, tuple) else final
    if all(checks) and fin is True:
        return True, True, None
    return True, False, f"tree step checks {checks}, sd_check of the model's diagram {fin}"
