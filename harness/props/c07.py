"""C07 — two-site TDVP: conservation, two-node exactness and bounded bonds."""
from __future__ import annotations

import copy
import traceback
from collections import Counter

import numpy as np

from lib import Prop, SkipCase
import util
from props import c05 as S
from props.c06 import (make_measure, strip_vecs, structural_oracle, conservation_oracle, expm_herm, mode_of, TOL,
                       propagator_herm, rel_dev, duration_guard, apply_provenance, gen_provenance_cases, run_prelude,
                       gen_prelude_cases)
from props import c07w           # C07W hook: store-level tie (Evo/TDVPStore.v, two-site part)


def svd_params(spec):
    from pytreenet.util.tensor_splitting import SVDParameters
    if spec is None:
        return util.no_trunc()
    spec = dict(spec)
    for k in ("rel_tol", "total_tol"):          # replay files carry infinities as strings ("-inf")
        if isinstance(spec[k], str):
            spec[k] = float(spec[k])
    return SVDParameters(max_bond_dim=spec["max_bond"], rel_tol=spec["rel_tol"], total_tol=spec["total_tol"],
                         renorm=spec.get("renorm", False), sum_trunc=spec.get("sum_trunc", False))


# ---- IDENTIFIER SPELLINGS (round 7): oracle-only driver (the schedule recorder / the model tie speak n0, n1, ...) --------------


def spell(par, spec):
    """identifier of every node index under the spelling `spec`:
    kind "path": the customary naming of a tree by positions - the root is spec["root"], a child is its parent's identifier +
      separator + a letter (spec["letters"][node]: distinct among siblings, e.g. t, t_L, t_R, t_L_R; an only child may be the
      "right" one); every inner node's identifier is a prefix of its descendants';
    kind "prefix": identifiers that are prefixes / substrings of each other without following the tree (q, qq, qqq / s1, s12)."""
    n = len(par)
    if spec["kind"] == "path":
        name = {0: spec["root"]}
        for i in range(1, n):                      # parents have smaller indices
            name[i] = name[par[i]] + spec["sep"] + spec["letters"][i]
        return [name[i] for i in range(n)]
    order = spec["order"]                          # a permutation of the indices
    return [spec["root"] + spec["digits"][:order[i] + 1] for i in range(n)]


def gen_spelling(rng, par, j):
    """spelling of case number j of the family: every fifth one of kind "prefix", the others path namings that visit the
    combinations (separator, letters) of SEPARATORS x ALPHABETS in turn (all nine within nine consecutive path cases); an only
    child is the left or the right one in turn"""
    n = len(par)
    if j % 5 != 4:
        pj = j - j // 5                            # running number among the path cases
        seps = ["_", ".", ""]
        als = [("L", "R", "M", "N", "O", "P"), ("0", "1", "2", "3", "4", "5"), ("a", "b", "c", "d", "e", "f")]
        sep, al = seps[pj % 3], als[(pj // 3) % 3]
        ch = util.children_of(par)
        letters = {}
        for i in range(n):
            pick = list(range(len(ch[i]))) if len(ch[i]) != 1 else [(pj // 9 + 1 + i) % 2]
            for c, k in zip(ch[i], pick):
                letters[c] = al[k % len(al)] + ("" if k < len(al) else str(k))
        return {"kind": "path", "root": rng.choice(["t", "t", "root", "x", "0"]), "sep": sep,
                "letters": [letters.get(i, "") for i in range(n)]}
    order = list(range(n))
    rng.shuffle(order)
    return {"kind": "prefix", "root": rng.choice(["q", "s", "n", "node"]), "digits": rng.choice(["1234567890", "qqqqqqqqqq", "_R_R_R_R_R", "0000000000"]),
            "order": order}


def _run_named_case(case):
    """the two-site class on a system whose node identifiers are spelled by case["names"]: the state is rebuilt from the
    tensors of the n0, n1, ... system (same tree, same children orders) under the new identifiers, the Hamiltonian's terms are
    re-keyed, the TTNO is built on the renamed state.  Observations are translated BACK to n0, n1, ... (an identifier that is
    not one of the spelled ones is kept with a leading "?"), so that the oracles of the other cases apply."""
    try:
        sysd = S.build_system(dict(case, ttno_shuffle=False))
        T = copy.deepcopy(sysd["ttns"])
        n = len(case["par"])
        names = spell(case["par"], case["names"])
        if len(set(names)) != n:
            return {"skip": "spelling is not injective"}
        nm = {f"n{i}": names[i] for i in range(n)}
        inv = {v: k for k, v in nm.items()}
        st = type(T)()
        for x in T.nodes:                          # dictionary order of util.build_ttns: parents first, siblings in children order
            t = np.array(T.tensors[x]).copy()
            if T.nodes[x].is_root():
                st.add_root(util.Node(identifier=nm[x]), t)
            else:
                p = T.nodes[x].parent
                st.add_child_to_parent(util.Node(identifier=nm[x]), t, 0, nm[p], st.nodes[nm[p]].nneighbours())
        ham = sysd["ham"]
        ham2 = util.Hamiltonian([(fr, g, util.TensorProduct({nm[k]: v for k, v in tp.items()})) for fr, g, tp in ham.terms],
                                ham.conversion_dictionary, ham.coeffs_mapping)
        ttno = util.TTNO.from_hamiltonian(copy.deepcopy(ham2), st)
        order = [nm[i] for i in sysd["ids"]]
        psi0 = util.dense_vec(copy.deepcopy(st), order)
        ref0 = util.dense_vec(copy.deepcopy(T), sysd["ids"])
        if float(np.max(np.abs(psi0 - ref0))) > 1e-12 * max(1.0, float(np.max(np.abs(ref0)))):
            return {"skip": "renamed state differs from the original (harness)"}
        measure = make_measure({"ids": order, "H": sysd["H"]})
        tr = lambda x: None if x is None else inv.get(x, "?" + str(x))      # noqa: E731

        def meas(algo, label, t):
            m = measure(algo, 0)
            m["ids"] = sorted(tr(i) for i in m["ids"])
            m["structure"] = {tr(i): [tr(pc[0]), sorted(tr(c) for c in pc[1])] for i, pc in m["structure"].items()}
            m["shapes"] = None
            m["centre"] = tr(m["centre"])
            m["at"], m["t"] = label, t
            return m
        dt = sysd["dt"]
        nsteps = case.get("nsteps", 1)
        ob = {"kind": "tdvp2s", "dt": dt, "names": names, "problems": [], "steps": [], "measure": [], "initial_shapes": None,
              "hscale": float(np.max(np.abs(sysd["H"])))}
        with duration_guard(dt):
            try:
                algo = util.make_evolution("tdvp2s", st, ham2, ttno, dt, dt * nsteps, [], mode=mode_of(case.get("mode", "expm")),
                                           svd=svd_params(case.get("trunc")), builder=bool(case.get("builder")))
            except Exception as e:  # noqa
                return {"exception": f"{type(e).__name__}: {e} (identifiers {names})", "tb": traceback.format_exc()[-1500:], "names": names}
            ob["update_path"] = [S.nid(inv[x]) if x in inv else -1 for x in algo.update_path]
            ob["measure"].append(meas(algo, "constructor", 0))
            ob["psi0_dev"] = float(np.max(np.abs(ob["measure"][0]["vec"] - psi0)))
            for k in range(1, nsteps + 1):
                try:
                    algo.run_one_time_step()
                except Exception as e:  # noqa
                    ob["exception"] = f"{type(e).__name__}: {e} (step {k}, identifiers {names})"
                    ob["tb"] = traceback.format_exc()[-1200:]
                    break
                ob["measure"].append(meas(algo, f"step {k}", k))
        if "exception" not in ob and case["sub"] == "twonode":
            prop = propagator_herm(sysd["H"])
            ob["exact_dev"] = [rel_dev(m["vec"], prop(m["t"] * dt) @ psi0, psi0) for m in ob["measure"]]
        return strip_vecs(ob)
    except S._Skip as s:
        return {"skip": str(s)}
    except Exception as e:  # noqa
        return {"exception": f"{type(e).__name__}: {e}", "tb": traceback.format_exc()[-1500:], "construct": True}


def _run_case(case):
    if case.get("names"):
        return _run_named_case(case)
    try:
        sysd = S.build_system(case)
        prov = apply_provenance(case, sysd) if case.get("prov") else None      # initial state produced by other public operations
    except S._Skip as s:
        return {"skip": str(s)}
    except Exception as e:  # noqa
        return {"exception": f"{type(e).__name__}: {e}", "tb": traceback.format_exc()[-1500:], "construct": True}
    with duration_guard(sysd["dt"]):
        ob = _run_built(case, sysd)
    if prov is not None and isinstance(ob, dict):
        ob["prov"] = prov
    return ob


def _run_built(case, sysd):
    try:
        measure = make_measure(sysd)
        psi0 = util.dense_vec(copy.deepcopy(sysd["ttns"]), sysd["ids"])
        nsteps = case.get("nsteps", 1)
        svd = svd_params(case.get("trunc"))
        pre = run_prelude(case, sysd) if case.get("prelude") else None      # an earlier run in this process (not judged)
        ob, algo = S.record_run("tdvp2s", sysd, nsteps, check_heff=False, mode=mode_of(case.get("mode", "expm")), svd=svd,
                                after_step=measure, **S.hist_kwargs(case))
        ob["hscale"] = float(np.max(np.abs(sysd["H"])))
        ob["initial_shapes"] = None
        if pre is not None:
            ob["prelude"] = pre
        # --- C07W hook: private run of the same class for the store-level tie (structure after constructor / steps) ---
        if c07w.sampled(case, 0) and not case.get("large"):      # (the structural tie of two-node systems is carried by the small cases)
            ob["w"] = c07w.real_side(case, sysd, mode_of(case.get("mode", "expm")), svd, S.make_algo, S.rtree_json)
        # --- end C07W hook ---
        # (a state that was multiplied by 2^sexp > 1 is judged in units of that factor: the same state, the same tolerance)
        ob["psi0_dev"] = (float(np.max(np.abs(ob["measure"][0]["vec"] - psi0))) / max(1.0, 2.0 ** case.get("sexp", 0))
                          if ob["measure"] else None)
        if "exception" not in ob and case["sub"] == "twonode":
            devs = []
            prop = propagator_herm(sysd["H"])
            for k, m in enumerate(ob["measure"]):
                ref = prop(m.get("t", k) * sysd["dt"]) @ psi0      # dt = the REQUESTED time step
                devs.append(rel_dev(m["vec"], ref, psi0))
            ob["exact_dev"] = devs
            ob["local_dim"] = int(np.prod(case["phys"])) if case.get("phys") else None
        return strip_vecs(ob)
    except S._Skip as s:
        return {"skip": str(s)}
    except Exception as e:  # noqa
        return {"exception": f"{type(e).__name__}: {e}", "tb": traceback.format_exc()[-1500:], "construct": True}


class C07(Prop):
    id = "C07"
    title = "two-site TDVP: conservation, two-node exactness, bounded bonds"
    design_ref = "DESIGN.md section 5 / C07"
    rule = ("fixed tree list (two nodes, single-child roots, stars, chains, binary, depth ties) and random trees with 2..7 nodes; unnormalised random "
            "states with shuffled legs and bond dimensions 1..3; Hermitian random Hamiltonians; sub-kinds: run (truncation disabled: structure, "
            "canonical form at the recorded centre, norm/energy conservation, 1..3 steps), twonode (any initial bond 1..4 and physical dimensions "
            "2..3 against exp(-iH k dt) by eigendecomposition), trunc (max bond 1..4, relative/absolute tolerances incl. 0 and large, sum mode, "
            "renorm: every bond within [1, max]). Configurations: every fifth case with a final time the time step does not divide. Histories "
            "on one object, truncation disabled (trees 4..9 nodes, two thirds with every bond >= 2): steps / reset_to_initial_state() / "
            "steps; evaluate_operators() between steps and the public run() with single-site observables on leaves (one furthest from the "
            "sweep start) and a two-site product: structure, canonical form at the recorded centre, norm and energy after every action "
            "(recording and resetting are not schedule events: part of the tie). Truncation through the documented builder tdvp(..., "
            "TDVPConfig(order=2, sites=2, svd_params)) for every fifth trunc case; initial bonds above the configured maximum (physical dimension "
            "3, every bond 3..5, max_bond 1..2, tolerances that cut nothing), class and builder in turn. Two-node exactness with large local "
            "spaces and long steps: physical dimensions 4..40 (d1*d2 in [1000, 1150] and 36..400 in turn), initial bond 1..4, ||H|| dt in "
            "(1/2, 1] times 1, 16, 64, 128, default mode (EXPM on medium sizes). Units / scales: Hamiltonian times 2^hexp, hexp in [-44, 24], "
            "time step divided by the same power of two, every fifth state rescaled by 2^-30 .. 2^16 (two-node exactness and conservation "
            "runs; state deviations relative to max|psi0|). Symmetric states with exactly degenerate Schmidt spectra: GHZ / Bell-type states "
            "sum_k c_k |k..k> (copy tensors, every bond d = 2..4, |c_k| in multiplets 1,1 / 1,1,1 / 1,1,.5 / 1,.5,.5 / 1,1,.5,.5 ..., random phases, "
            "2..7 nodes, dense space <= 300) under Hermitian Hamiltonians that keep the degeneracy (diagonal in the product basis with any support; "
            "or sums of single-site terms on the state rotated by random local unitaries), max_bond 1..d-1 with tolerances 0 / 1e-15 / -inf (the cap "
            "binds, inside or at the edge of a multiplet), value / sum mode, renorm, class / builder, 1..3 steps: every bond within [1, max] after "
            "every step. Initial states produced by other public operations: the tree grown upwards (subtree first, then 1..k add_parent_to_root "
            "calls, root last in the node dictionary) with read-only queries (path_from_to, find_path_to_root, distance_to_node, linearise, ...) "
            "before / between the growth steps, or queried and deep-copied / pickled (truncation disabled; structure against the tree of the case). "
            "Identifier spellings (oracle only): path naming t, t_L, t_R, t_L_R (separators _ . none; letters L R M / 0 1 2 / a b c; only children "
            "possibly 'right'), identifiers that are prefixes of each other (q, qq; s1, s12; n_R, n_R_R): two-node exactness with bonds 1..5, "
            "conservation, truncation bounds. Earlier runs in the same process: the judged run (builder with a fresh default configuration / class) "
            "follows another TDVP object whose configuration object was changed in place (ODE mode, record_bond_dim). A local update over more than "
            "2 dt is aborted and reported (cost guard). non-trivial = >= 2 nodes; distinct by content")
    clauses = [
        ("F", "trace2s is defined on every tree with unique ids and >= 2 nodes; the signed durations of a step sum to dt (C07_two_site_runs, C07_total_duration)"),
        ("F", "two nodes (any identifiers): the step consists of exactly two half-step two-site updates on the only edge and no backward site update "
              "(C07_two_node_trace); with the identity embedding the projected Hamiltonian is H (C07_two_node_projection)"),
        ("F", "on every tree the (object, signed factor) sequence of the step is a palindrome (C07_palindrome)"),
        ("F", "for every tree >= 2 nodes (C07_durations; bounded companion kept): +dt on every edge, -(degree-1)dt on every node, every TwoSite event on an edge (C07_durations_bounded_10)"),
        ("F", "for every tree >= 2 nodes (C07_schedule_ok; bounded companion kept): centre on the updated pair, every block read fresh over two consecutive steps without re-initialisation, "
              "the step ends with the centre on update_path[0] (C07_schedule_ok_bounded_9)"),
        ("F", "the truncation rule keeps between 1 and max_bond_dim singular values (C07_bond_bounded = C10's select_spec)"),
        ("O", "Layer A: a unitary commuting with K = E^+HE preserves norm and energy of E A (C07_local_update_conserves); contracts: expm kernel, "
              "exact SVD U S Vh = A with U, Vh isometries (LAPACK)"),
        ("F", "store level (Evo/TDVPStore.v: TwoSite = legs_before_combination, contract_nodes(a, b, TwoSite_a_contr_b), read + raw replacement of the "
              "contracted tensor, split_node_svd with the recorded specifications - the truncated bond dimension is an argument -, centre := b; "
              "SiteBack = site update; centre moves = move_orthogonalization_center(KEEP)): for EVERY well-formed tree store (wfb, >= 2 nodes) whose "
              "recorded centre is update_path[0], given one bond dimension per two-site update, the step SUCCEEDS, keeps the store invariant, the "
              "node identifiers, every parent pointer, every children set and the root, and ends with the recorded centre on update_path[0] "
              "(C07_two_site_step_on_store); one two-site update touches no third node and removes the temporary node (C07_two_site_update_on_store)"),
        ("F", "canonical form, for EVERY tree (Evo/TDVPTwoSiteIso.v): the extended isometry attribute iso_check2 (every non-centre node is a single atom, the "
              "first factor of a QR call or of a truncated-SVD call, whose bond wire sits on the node's leg toward the recorded centre) is an invariant "
              "of every event of the two-site trace - tensor reads, the evolved tensor at the centre, QR centre moves, and the two-site update, which "
              "leaves U on the node the centre leaves (C07_two_site_update_canonical); hence for every tree with unique ids and >= 2 nodes, every wfb "
              "store matching it (any child order) with iso_check2 at update_path[0] and enough bond dimensions, the step succeeds and ends with "
              "iso_check2 at update_path[0] (C07_two_site_step_canonical), for any number of consecutive steps (C07_two_site_steps_canonical); "
              "canonical_form and the modelled constructor establish the hypothesis (C07_canonical_form_establishes, C07_constructor_establishes)"),
        ("I", "per explored instance: schedule checker + duration checker on the exactly matching model trace; store-level tie (c07w): build programme "
              "accepted, tree_of = live tree, every model stage defined, the number of SVD kernel calls = the number of two-site updates of the model, "
              "and the extended isometry attribute iso_check2 (every non-centre node is the first factor of a QR or truncated-SVD call with its bond "
              "toward the recorded centre: canonical form at the recorded centre) after the constructor and after every step (evaluated on the "
              "instance as a cross-check of the tie; the statement itself is the universal clause above)"),
        ("V", "conservation, two-node exactness (exp(A/2)^2 = exp(A) of the kernel), numerical isometry check of the real tensors (SVD/QR kernel "
              "contracts), bond bounds: numerical / runtime oracle; that the symbolic attribute iso_check2 denotes isometries of the REAL tensors "
              "rests on the kernel contracts (Q of QR, U of the truncated SVD are isometries w.r.t. the bond leg) and is validated numerically"),
    ]
    trusted_base = ["store-level tie: harness/props/c07w.py + c06w.py + wmodel.py (exact comparison of node dict order, parents, children order, leg "
                    "permutations, raw shapes, tensor dict order, root, centre after the constructor and after up to two steps; the bond dimensions of the "
                    "truncated SVDs are read at the kernel boundary contr_truncated_svd_splitting and handed to the model)",
                    "np.linalg.eigh for the reference propagator; einsum for dense states; kron for the dense Hamiltonian",
                    "LAPACK SVD inside split_node_svd is exercised, not modelled (C11); kernel contract behind the canonical-form theorem: the first "
                    "factor of a kind-0 (QR) or kind-4 (truncated SVD, U) kernel call is an isometry from its other legs to the bond leg - the theorem "
                    "C07_two_site_step_canonical is about the symbolic attribute iso_check2 of the store model (which call produced which tensor, and "
                    "where its bond leg points), not about floating-point entries"]
    assumptions = ["Hermitian Hamiltonian for conservation and exactness; truncation disabled means max_bond_dim=inf, tolerances -inf"]

    def generate(self, ctx, stream, budget_scale=1):
        rng = ctx.rng(stream)
        cases = []
        trees = list(S.SPECIAL_TREES)
        for _ in range(ctx.scale(40, 1500) * budget_scale):
            trees.append(S.random_tree(rng, rng.choice([2, 3, 4, 5, 6, 7])))
        if stream != "main":
            rng.shuffle(trees)
        for j, par in enumerate(trees):
            cases.append({"par": par, "kind": "tdvp2s", "sub": "run", "seed": rng.randrange(10 ** 9), "herm": True, "coeffs": j % 4 == 0,
                          "ttno_shuffle": j % 2 == 0, "mode": "default" if j % 5 == 0 else "expm",
                          # several consecutive steps on every small special tree: the children order of the
                          # state's nodes changes between steps (each contract/split pair rotates it)
                          "nsteps": (3 if (par in S.SPECIAL_TREES and 4 <= len(par) <= 5) else rng.choice([1, 2, 3])) if len(par) <= 5 else 1,
                          "nterms": rng.choice([1, 2, 3])})
            if j % 10 == 5:
                # default mode through the documented builder tdvp(...) with its default time-evolution configuration
                cases[-1]["builder"] = True
        # ODE evolution modes (solve_ivp tolerances rtol=1e-3): the backward site updates of the two-site scheme are
        # integrated with forward=True and a NEGATIVE duration; conservation is checked to 2e-2
        for rep in range(ctx.scale(8, 80) * budget_scale):
            par = rng.choice([[None, 0, 0], [None, 0, 1], [None, 0, 0, 0], [None, 0, 1, 1], [None, 0, 0, 1, 2]])
            md = rng.choice(["RK45", "RK23", "DOP853", "BDF"])
            # BDF (implicit, strongly damping at solve_ivp's default rtol=1e-3) loses several per cent of norm/energy per step on
            # oscillatory problems: that is the solver's accuracy, not the scheme's; the explicit Runge-Kutta modes stay within 2e-2
            cases.append({"par": par, "kind": "tdvp2s", "sub": "run", "seed": rng.randrange(10 ** 9), "herm": True, "coeffs": False,
                          "ttno_shuffle": rep % 2 == 0, "mode": md, "nsteps": 2,
                          "nterms": rng.choice([2, 3]), "tol": 0.3 if md == "BDF" else 2e-2})
        for rep in range(ctx.scale(16, 300) * budget_scale):
            cases.append({"par": [None, 0], "kind": "tdvp2s", "sub": "twonode", "seed": rng.randrange(10 ** 9), "herm": True,
                          "coeffs": rep % 2 == 0, "phys": [rng.choice([2, 3]), rng.choice([2, 3])], "bond": {1: rng.choice([1, 2, 3, 4])},
                          "mode": "expm", "nsteps": rng.choice([1, 2]), "nterms": rng.choice([2, 3, 4])})
        for rep in range(ctx.scale(60, 2000) * budget_scale):
            par = rng.choice(trees)
            tr = {"max_bond": rng.choice([1, 1, 2, 3, 4]), "rel_tol": rng.choice([0.0, 1e-15, 1e-3, 0.3, 0.9, 2.0, float("-inf")]),
                  "total_tol": rng.choice([0.0, 1e-15, 1e-2, 1.0, 1e3, float("-inf")]), "sum_trunc": rep % 3 == 0, "renorm": rep % 4 == 0}
            cases.append({"par": par, "kind": "tdvp2s", "sub": "trunc", "seed": rng.randrange(10 ** 9), "herm": True, "coeffs": False,
                          "ttno_shuffle": rep % 2 == 0, "mode": "expm", "nsteps": rng.choice([1, 2]), "nterms": rng.choice([1, 2, 3]), "trunc": tr})
        # CONFIGURATIONS: a final time that the time step does not divide (two-node exactness uses the requested time step)
        for j, c in enumerate(cases):
            if j % 5 == 3:
                c["tratio"] = rng.choice(S.TRATIOS)
        # CONFIGURATIONS: every fifth truncation case is constructed through the documented builder tdvp(state, H, dt, T, ops,
        # TDVPConfig(order=2, sites=2, svd_params=...)) instead of the class (the truncation settings are the caller's; initial
        # bonds above the configured maximum occur in both routes: bonds 1..3 against max_bond 1..4)
        for j, c in enumerate([c for c in cases if c["sub"] == "trunc"]):
            if j % 5 == 2:
                c["builder"] = True
        # INITIAL BONDS ABOVE THE CONFIGURED MAXIMUM ("all initial states ... all truncation settings"): physical dimension 3,
        # every initial bond 3..5, max_bond 1..2 with tolerances that cut nothing themselves, so that the cap is what binds; the
        # class and the builder route in turn
        for rep in range(ctx.scale(8, 120) * budget_scale):
            par = rng.choice([[None, 0], [None, 0, 0], [None, 0, 1], [None, 0, 1, 1], [None, 0, 0, 0], [None, 0, 1, 2], [None, 0, 0, 1, 2]])
            tr = {"max_bond": rng.choice([1, 2, 2]), "rel_tol": rng.choice([0.0, 1e-15, float("-inf")]),
                  "total_tol": rng.choice([0.0, 1e-15, float("-inf")]), "sum_trunc": rep % 3 == 0, "renorm": rep % 4 == 0}
            cases.append({"par": par, "kind": "tdvp2s", "sub": "trunc", "seed": rng.randrange(10 ** 9), "herm": True, "coeffs": False,
                          "ttno_shuffle": rep % 2 == 0, "mode": "expm", "nsteps": rng.choice([1, 2]), "nterms": rng.choice([1, 2, 3]),
                          "trunc": tr, "phys": [3] * len(par), "bond": rng.choice([3, 4, 5]) if len(par) <= 4 else 3,
                          "builder": rep % 2 == 1, "overcap": True})
        # SYMMETRIC STATES with EXACTLY DEGENERATE Schmidt spectra ("all initial states and Hermitian Hamiltonians, all truncation
        # settings"): GHZ / Bell-type states sum_k c_k |k..k> with |c_k| in multiplets (1,1 / 1,1,1 / 1,1,.5 / 1,.5,.5 / ...), every
        # bond d = 2..4, under Hamiltonians that keep the degeneracy (diagonal in the product basis with any support, or sums of
        # single-site terms on a state rotated by random local unitaries); max_bond 1..d-1 with tolerances that cut nothing
        # themselves: the cap falls inside or at the edge of a multiplet; value / sum mode, renorm, class / builder in turn
        for rep in range(ctx.scale(10, 200) * budget_scale):
            f = S.gen_ghz_fields(rng, rep)
            tr = {"max_bond": rng.randint(1, len(f["ghz"]) - 1), "rel_tol": rng.choice([0.0, 1e-15, float("-inf")]),
                  "total_tol": rng.choice([0.0, 1e-15, float("-inf")]), "sum_trunc": rep % 3 == 0, "renorm": rep % 4 == 0}
            c = {"kind": "tdvp2s", "sub": "trunc", "seed": rng.randrange(10 ** 9), "ttno_shuffle": rep % 2 == 0,
                 "mode": "expm" if rep % 3 else "default", "nsteps": rng.choice([1, 2, 3]) if len(f["par"]) <= 5 else 1,
                 "trunc": tr, "builder": rep % 4 == 3, "overcap": True, "degenerate": True}
            c.update(f)
            cases.append(c)
        # LARGE LOCAL SPACES and LONG STEPS ("reproduces exp(-iH dt) exactly on a two-node tree for any initial bond dimension"; the
        # time step is not restricted by the text): two-node trees with physical dimensions 4..40, alternately a large local
        # space (d1*d2 in [1000, 1150]) and a medium one (36..400), initial bond 1..4, ||H|| dt in (1/2, 1] times 1, 16, 64 or
        # 128, default mode (and EXPM on the medium ones), against exp(-iH k dt) psi by one eigendecomposition
        for rep in range(ctx.scale(4, 40) * budget_scale):
            if rep % 2 == 0:
                d1 = rng.choice([25, 28, 32, 36, 40])
                d2 = rng.randint(-(-1000 // d1), 1150 // d1)
            else:
                d1, d2 = rng.choice([6, 8, 12, 16, 20]), rng.choice([6, 8, 12, 16, 20])
            if rng.random() < 0.5:
                d1, d2 = d2, d1
            cases.append({"par": [None, 0], "kind": "tdvp2s", "sub": "twonode", "seed": rng.randrange(10 ** 9), "herm": True,
                          "coeffs": rep % 4 == 1, "phys": [d1, d2], "bond": {1: rng.choice([1, 2, 3, 4])},
                          "mode": "expm" if rep % 4 == 3 else "default", "nsteps": 1 if rep % 2 == 0 else rng.choice([1, 2]),
                          "nterms": rng.choice([2, 3, 4]), "dtscale": [64, 1, 128, 16][rep % 4], "real": False, "large": True})
        # HISTORIES ("several consecutive steps" of ONE object as it is used): run / reset_to_initial_state() / run, and
        # observables recorded between the steps (evaluate_operators() by hand, the public run()): truncation disabled,
        # structure, canonical form, norm and energy after every action; trees up to 9 nodes, mostly entangled states (bonds >= 2)

        def base(rng, j, par):
            return {"sub": "run", "herm": True, "coeffs": j % 4 == 0, "ttno_shuffle": j % 2 == 0,
                    "mode": "default" if j % 5 == 0 else "expm", "nterms": rng.choice([1, 2, 3])}
        cases += S.gen_history_cases(rng, ctx.scale(24, 480) * budget_scale, ["tdvp2s"], base)
        # UNITS / SCALES: the Hamiltonian in units 2^-44 .. 2^24 with the time step scaled inversely, every fifth state rescaled
        # by 2^-30 .. 2^16; every third case a two-node exactness case, the others conservation runs; relative judgements

        def sbase(rng, j, par):
            return {"sub": "run", "herm": True, "coeffs": j % 4 == 0, "ttno_shuffle": j % 2 == 0,
                    "mode": "default" if j % 5 == 0 else "expm", "nterms": rng.choice([1, 2, 3]),
                    "nsteps": rng.choice([1, 2]) if len(par) <= 5 else 1}

        def stwo(rng, j):
            return {"par": [None, 0], "sub": "twonode", "phys": [rng.choice([2, 3]), rng.choice([2, 3])],
                    "bond": {1: rng.choice([1, 2, 3, 4])}, "mode": "default" if j % 2 else "expm", "nsteps": rng.choice([1, 2]),
                    "nterms": rng.choice([2, 3, 4])}
        cases += S.gen_scaled_cases(rng, ctx.scale(15, 300) * budget_scale, ["tdvp2s"], sbase, saturated=stwo)
        # INITIAL STATES PRODUCED BY OTHER PUBLIC OPERATIONS ("all initial states"): the same tensors on the same tree, but the
        # tree was grown UPWARDS (subtree first, then 1..k add_parent_to_root calls; the root is the last entry of the node
        # dictionary) with read-only queries (path_from_to, find_path_to_root, distance_to_node, ...) before and between the
        # growth steps, or queried and then deep-copied / pickled: truncation disabled, structure against the tree of the case,
        # canonical form, conservation (c06.derive_state)

        def prfields(rng, j, par):
            return {"sub": "run", "coeffs": j % 4 == 0, "ttno_shuffle": j % 2 == 0, "mode": "default" if j % 5 == 0 else "expm",
                    "nterms": rng.choice([1, 2, 3]), "nsteps": rng.choice([1, 2]) if len(par) <= 5 else 1}
        cases += gen_provenance_cases(rng, ctx.scale(10, 160) * budget_scale, ["tdvp2s"], prfields)
        # IDENTIFIER SPELLINGS ("all trees": the identifiers are the caller's): path naming of trees (t, t_L, t_R, t_L_L, ...: every
        # inner node's identifier is a prefix of its descendants', an only child may be the "right" one; separators _ . or none;
        # letters L R M / 0 1 2 / a b c, all nine combinations in turn) and identifiers that are prefixes of each other across the tree (q, qq, qqq; s1, s12;
        # n_R, n_R_R); two-node exactness with bonds 1..5, conservation runs and truncation (bond bounds); oracle only
        name_trees = [[None, 0], [None, 0], [None, 0, 0], [None, 0, 0, 1, 1], [None, 0, 1, 1], [None, 0, 0, 1, 1, 2, 2], [None, 0, 1, 1, 2, 2]]
        for rep in range(ctx.scale(15, 220) * budget_scale):
            par = name_trees[rep % len(name_trees)] if rep % 3 != 2 else S.random_tree(rng, rng.choice([2, 3, 4, 5, 6]))
            c = {"par": par, "kind": "tdvp2s", "sub": "run", "seed": rng.randrange(10 ** 9), "herm": True, "coeffs": rep % 4 == 0,
                 "mode": "default" if rep % 5 == 0 else "expm", "nsteps": rng.choice([1, 2, 3]) if len(par) <= 5 else 1,
                 "nterms": rng.choice([1, 2, 3]), "names": gen_spelling(rng, par, rep), "builder": rep % 6 == 5}
            if len(par) == 2:
                c.update({"sub": "twonode", "phys": [rng.choice([2, 3]), rng.choice([2, 3])], "bond": {1: rng.choice([1, 2, 3, 4, 5])},
                          "nterms": rng.choice([2, 3, 4])})
            elif rep % 4 == 1:
                c.update({"sub": "trunc", "trunc": {"max_bond": rng.choice([1, 2, 3]), "rel_tol": rng.choice([0.0, 1e-3, float("-inf")]),
                                                    "total_tol": rng.choice([0.0, 1e-2, float("-inf")]), "sum_trunc": rep % 3 == 0,
                                                    "renorm": rep % 8 == 1}})
            cases.append(c)
        # EARLIER RUNS IN THE SAME PROCESS (c06.run_prelude): the judged run (fresh default TDVPConfig(order=2, sites=2, svd_params) of
        # the builder, or the class) follows another TDVP object whose configuration object was changed in place; they go first
        # (the workers of the pool are reused: the replay of the case that carries the whole history is self-contained)

        def pfields(rng, j):
            if j % 2 == 0:
                return {"par": [None, 0], "sub": "twonode", "phys": [rng.choice([2, 3]), rng.choice([2, 3])], "bond": {1: rng.choice([1, 2, 3, 4])},
                        "mode": "expm", "nsteps": rng.choice([1, 2]), "nterms": rng.choice([2, 3, 4]), "coeffs": j % 4 == 0}
            par = rng.choice([p for p in S.SPECIAL_TREES if len(p) <= 5])
            return {"par": par, "sub": "run", "coeffs": j % 4 == 1, "ttno_shuffle": j % 3 == 0, "mode": "expm",
                    "nsteps": rng.choice([1, 2]), "nterms": rng.choice([1, 2, 3])}
        cases = gen_prelude_cases(rng, ctx.scale(4, 48) * budget_scale, ["tdvp2s"], pfields) + cases
        return cases

    def nontrivial(self, case):
        return len(case["par"]) >= 2

    def distribution(self, cases):
        c = Counter()
        for x in cases:
            c[f"nodes={len(x['par'])}"] += 1
            c[x["sub"]] += 1
            c["history=" + x.get("hist", "steps")] += 1
            if x.get("tratio") is not None and x["tratio"] != int(x["tratio"]):
                c["final-time-not-multiple-of-dt"] += 1
            S.scale_distribution(c, x)
            if x.get("large"):
                c["two-node-local-dim>=1000" if int(np.prod(x["phys"])) >= 1000 else "two-node-local-dim=36..400"] += 1
            if x.get("overcap"):
                c["initial-bonds-above-max_bond"] += 1
            if x.get("ghz"):
                g, mb = x["ghz"], x["trunc"]["max_bond"]
                c["ghz-type:" + x["hamkind"] + "-hamiltonian"] += 1
                c["ghz-type:cap-inside-multiplet" if g[mb - 1] == g[mb] else "ghz-type:cap-between-multiplets"] += 1
            if x.get("builder"):
                c["via-builder:" + x["sub"]] += 1
            if x.get("prov"):
                c["initial-state:grown-by-%d-add_parent_to_root" % x["prov"]["grow"] if x["prov"].get("grow") else "initial-state:queried"] += 1
                if x["prov"].get("copy"):
                    c["initial-state:" + x["prov"]["copy"]] += 1
            if x.get("names"):
                c["identifiers:" + x["names"]["kind"] + (":sep=" + repr(x["names"]["sep"]) if x["names"]["kind"] == "path" else "")] += 1
            if x.get("prelude"):
                c["after-earlier-run:" + x["prelude"]["route"] + ("/fresh-default-config" if x.get("builder") else "/explicit-config")] += 1
            if x.get("trunc"):
                c[f"max_bond={x['trunc']['max_bond']}"] += 1
                c["sum_trunc" if x["trunc"]["sum_trunc"] else "value_trunc"] += 1
        return dict(c)

    def impl(self, ctx, cases):
        obs = S._pool_map(_run_case, cases)
        return [SkipCase(o["skip"]) if "skip" in o else o for o in obs]

    def model(self, ctx, cases, obs):
        # --- C07W hook: tdvp_init / tdvp2s_step_t evaluated on the model store of the initial state ---
        self._w = c07w.run(ctx, cases, obs)
        # --- end C07W hook ---
        return S.eval_models(ctx, cases, obs)

    def compare(self, case, ob, mo):
        S.tally_instance(self, mo)
        if ob.get("construct"):
            return f"implementation raised in the constructor: {ob['exception']}"
        d = S.compare_traces(case, ob, mo)
        if d is None and ob.get("w_tie"):          # C07W hook
            return ob["w_tie"]
        return d

    def extra_obligations(self, ctx):
        n, ok, fails = self.__dict__.get("_inst", [0, 0, []])
        wn, wok, wfails = self.__dict__.get("_w", (0, 0, []))      # C07W hook: per-instance store-level obligations
        return n + wn, ok + wok, list(fails) + list(wfails)

    def oracle(self, case, ob):
        kind = "tdvp2s"
        if "exception" in ob:
            return f"{kind} on tree {case['par']} raised {ob['exception']}"
        if ob["problems"]:
            return f"{kind}: {ob['problems'][0]}"
        if ob["psi0_dev"] is None or ob["psi0_dev"] > TOL:
            return f"{kind}: the constructor changed the represented state by {ob['psi0_dev']}"
        if case.get("names") or case.get("prov"):
            # (the state after the constructor is the reference of structural_oracle: here it is itself compared with the tree of the case)
            par = case["par"]
            want = {f"n{i}": [None if par[i] is None else f"n{par[i]}", sorted(f"n{c}" for c in range(len(par)) if par[c] == i)] for i in range(len(par))}
            for m in ob["measure"]:
                if m["ids"] != sorted(want) or (m["centre"] is not None and m["centre"] not in want):
                    return (f"{kind} at '{m.get('at', 'constructor')}': node identifiers {m['ids']} / recorded centre {m['centre']} are not those of "
                            f"the initial state (tree {par}, identifiers {ob.get('names')}; '?' marks an identifier the initial state does not have)")
            m0 = ob["measure"][0]
            if m0["ids"] != sorted(want) or {i: [pc[0], sorted(pc[1])] for i, pc in m0["structure"].items()} != want:
                return (f"{kind} after the constructor: node identifiers / parent-child relations {m0['structure']} are not those of the initial "
                        f"state (tree {par}, identifiers {ob.get('names')})")
        d = structural_oracle(kind, ob, first_expected=True, check_shapes=False)
        if d:
            return d + (f" (identifiers {ob['names']})" if ob.get("names") else "")
        for k, st in enumerate(ob["steps"]):
            d = S.observed_durations(case["par"], kind, st)
            if d:
                return f"{kind} step {k + 1}: {d}"
        if case["sub"] == "trunc":
            mb = case["trunc"]["max_bond"]
            for k, m in enumerate(ob["measure"][1:], 1):
                bad = [b for b in m["bond_dims"] if b < 1 or b > mb]
                if bad:
                    return f"{kind} step {k}: bond dimensions {m['bond_dims']} outside [1, {mb}]"
            return None
        d = conservation_oracle(kind, ob, ob["hscale"], TOL=case.get("tol", TOL))
        if d:
            return d
        for k, m in enumerate(ob["measure"]):
            if any(b < 1 for b in m["bond_dims"]):
                return f"{kind} step {k}: a bond of dimension 0"
        if case["sub"] == "twonode":
            for k, dev in enumerate(ob["exact_dev"]):
                if dev > TOL:
                    return (f"{kind} two nodes, physical dimensions {case.get('phys')}, initial bond {case['bond']}, mode {case.get('mode', 'expm')}, "
                            f"dt = {ob['dt']!r}: state after {k} steps differs from exp(-iH k dt) psi by {dev:.2e} (relative to max|psi0|)")
        return None

    def classify(self, case, what, known):
        for kid, k in known.items():
            m = k.get("match")
            if m and m in what:
                return kid
        return None
