"""C02 — structural edits keep the network well-formed and its contraction unchanged."""
from __future__ import annotations

import copy
import random
import string
from collections import Counter

import numpy as np

from lib import Prop, coq_eval, SkipCase
import wmodel
from wmodel import Driver, IdMap, snapshot, raw_tensor


# ---- the property oracle (independent of the Coq model) ---------------------------------------
def well_formed(ttn):
    """the clauses of the property statement, checked on the public state"""
    nodes = ttn.nodes
    if ttn.root_id is None or ttn.root_id not in nodes:
        return "root id missing from the nodes"
    roots = [k for k, n in nodes.items() if n.parent is None]
    if roots != [ttn.root_id]:
        return f"nodes without parent {roots} but root_id={ttn.root_id}"
    for k, n in nodes.items():
        if n.identifier != k:
            return f"node under key {k} has identifier {n.identifier}"
        if len(set(n.children)) != len(n.children):
            return f"duplicate children at {k}"
        if n.parent is not None:
            if n.parent not in nodes or k not in nodes[n.parent].children:
                return f"{k} names parent {n.parent} which does not list it as a child"
        for c in n.children:
            if c not in nodes or nodes[c].parent != k:
                return f"{k} lists child {c} whose parent is {nodes[c].parent if c in nodes else 'missing'}"
    seen = set()
    todo = [ttn.root_id]
    while todo:
        x = todo.pop()
        if x in seen:
            return "cycle"
        seen.add(x)
        todo += nodes[x].children
    if seen != set(nodes):
        return "not connected"
    if set(ttn._tensors.data.keys()) != set(nodes):
        return f"node keys {sorted(nodes)} != tensor keys {sorted(ttn._tensors.data.keys())}"
    cp = copy.deepcopy(ttn)
    for k, n in cp.nodes.items():
        sh = tuple(n.shape)
        t = cp.tensors[k]
        if tuple(t.shape) != sh:
            return f"recorded shape {sh} of {k} != tensor shape {t.shape}"
        if t.ndim < n.nneighbours():
            return f"{k}: fewer legs than neighbours"
    for k, n in cp.nodes.items():
        if n.parent is not None:
            p = cp.nodes[n.parent]
            if cp.tensors[k].shape[0] != cp.tensors[n.parent].shape[p.neighbour_index(k)]:
                return f"bond {n.parent}-{k}: different dimensions at the two ends"
    return None


def dense_by_tokens(ttn, tokens):
    """full contraction (einsum on a copy); open legs ordered by their tokens"""
    cp = copy.deepcopy(ttn)
    lab = {}

    def L(x):
        if x not in lab:
            lab[x] = len(lab)
        return lab[x]
    args = []
    alltok = []
    for k, n in cp.nodes.items():
        t = cp.tensors[k]
        sub = []
        if n.parent is not None:
            sub.append(L(("e", n.parent, k)))
        for c in n.children:
            sub.append(L(("e", k, c)))
        toks = tokens[k]
        if len(sub) + len(toks) != t.ndim:
            raise ValueError(f"{k}: {t.ndim} legs but {len(sub)} neighbours and {len(toks)} tracked open legs")
        for tk in toks:
            sub.append(L(("o", tk)))
            alltok.append(tk)
        args += [t, sub]
    out = [L(("o", tk)) for tk in sorted(alltok)]
    if len(lab) > 52:
        return None
    return np.einsum(*args, out, optimize=True)


# ---- operation generator --------------------------------------------------------------------------
def gen_build(rng, nnodes, nopen_choices=(0, 1, 1, 1, 2, 3), dim_choices=(1, 2, 2, 3)):
    """add_root/add_child ops: random tree, random shapes, random leg positions, 0/1/2+ open legs"""
    parents = [None] + [rng.randrange(0, i) for i in range(1, nnodes)]
    open_dims = [[rng.choice(dim_choices) for _ in range(rng.choice(nopen_choices))] for _ in range(nnodes)]
    bond = {i: rng.choice(dim_choices) for i in range(1, nnodes)}
    return gen_build_on(rng, parents, open_dims, bond)


def gen_build_on(rng, parents, open_dims, bond, shuffle=True):
    """add_root/add_child ops for the given tree: node i is "n{i}", its open legs have the given
    dimensions (in that logical order), legs of every tensor are handed over in a random order and
    children are attached in a random order (so child order and lazy permutations vary)."""
    nnodes = len(parents)
    ops = []
    names = [f"n{i}" for i in range(nnodes)]
    cur = {}
    order = [0]
    frontier = [i for i in range(1, nnodes) if parents[i] == 0]
    while frontier:
        c = frontier.pop(rng.randrange(len(frontier)) if shuffle else 0)
        order.append(c)
        frontier += [i for i in range(1, nnodes) if parents[i] == c]
    for i in order:
        legs = []
        if parents[i] is not None:
            legs.append(("p", bond[i]))
        for j in range(nnodes):
            if parents[j] == i:
                legs.append(("c", j, bond[j]))
        for k, d in enumerate(open_dims[i]):
            legs.append(("o", k, d))
        if shuffle:
            rng.shuffle(legs)
            # open legs must keep their logical order among themselves
            opos = [k for k, l in enumerate(legs) if l[0] == "o"]
            osorted = sorted([legs[k] for k in opos], key=lambda l: l[1])
            for k, l in zip(opos, osorted):
                legs[k] = l
        shape = [l[-1] for l in legs]
        if parents[i] is None:
            ops.append(["add_root", names[i], shape])
            cur[i] = legs
        else:
            p = parents[i]
            cleg = [k for k, l in enumerate(legs) if l[0] == "p"][0]
            pl = cur[p]
            pleg = [k for k, l in enumerate(pl) if l[0] == "c" and l[1] == i][0]
            nvirt = sum(1 for l in pl if l[0] == "P" or l[0] == "C")
            ops.append(["add_child", names[i], shape, cleg, names[p], pleg])
            x = pl.pop(pleg)
            pl.insert(nvirt, ("C", x[1], x[2]))
            x = legs.pop(cleg)
            legs.insert(0, ("P", x[1]))
            cur[i] = legs
    return ops


def gen_edit(rng, snap, fresh, malformed=False):
    """one edit op generated from the current observable structure"""
    nodes = {n[0]: n for n in snap["nodes"]}
    ids = list(nodes)
    edges = [(n[1], n[0]) for n in snap["nodes"] if n[1] is not None]
    kinds = ["contract"] * 4 + ["split"] * 5 + ["insert_identity", "rename", "replace_tensor", "access", "access"]
    k = rng.choice(kinds)
    if k == "contract" and edges:
        p, c = rng.choice(edges)
        a, b = (p, c) if rng.random() < 0.5 else (c, p)
        if malformed and len(ids) > 2:
            a, b = rng.sample(ids, 2)          # mostly non-neighbours: both sides must reject
        # an identifier in use by a third node is outside the documented precondition (not generated)
        new = rng.choice([None, fresh(), a, b])
        return ["contract", a, b, new]
    if k == "split":
        n = rng.choice(ids)
        _, par, ch, perm, shape, _ = nodes[n]
        nlegs = len(perm)
        nvirt = (par is not None) + len(ch)
        opens = list(range(nvirt, nlegs))
        rng.shuffle(opens)
        chs = list(ch)
        rng.shuffle(chs)
        co = rng.randrange(len(chs) + 1)
        oo = rng.randrange(len(opens) + 1)
        o = {"parent": None, "children": chs[:co], "open": opens[:oo], "root": False}
        i = {"parent": None, "children": chs[co:], "open": opens[oo:], "root": False}
        top = o if rng.random() < 0.5 else i
        if par is not None:
            top["parent"] = par
        else:
            top["root"] = True
        kind = rng.choice([0, 0, 0, 1, 2])
        mode = rng.choice(["reduced", "full", "keep"]) if kind == 0 else "reduced"
        nin = len(i["children"]) + len(i["open"]) + (i["parent"] is not None)
        if kind == 0 and mode == "keep" and nin == 0:
            mode = "reduced"
        idc = rng.random()
        if idc < 0.3:
            oid, iid = fresh(), fresh()
        elif idc < 0.5:
            oid, iid = n, fresh()
        elif idc < 0.7:
            oid, iid = fresh(), n
        elif idc < 0.85:
            oid, iid = None, None
        else:
            oid, iid = (None, fresh()) if rng.random() < 0.5 else (fresh(), None)
        if kind == 2:
            oid = oid or fresh()
            iid = iid or fresh()
        # bond for an explicit replacement: min(m, n) (+1: zero-padded)
        cur_shape = [shape[x] for x in perm]
        lv = lambda d: ([0] if d["parent"] is not None else []) + [(1 if par is not None else 0) + ch.index(c) for c in d["children"]] + d["open"]
        m_ = int(np.prod([cur_shape[x] for x in lv(o)])) if lv(o) else 1
        n_ = int(np.prod([cur_shape[x] for x in lv(i)])) if lv(i) else 1
        bond = min(m_, n_) + rng.choice([0, 0, 1])
        if kind == 0 and mode == "full" and m_ > 256:
            mode = "reduced"      # a complete QR of an m x m matrix with m in the thousands is a memory test, not a structural one
        if malformed:
            which = rng.randrange(3)
            if which == 0 and opens:
                i["open"] = i["open"] + o["open"][:1] if o["open"] else i["open"][:-1]
            elif which == 1:
                o["root"] = i["root"] = True
            else:
                o["children"] = o["children"] + ["nonexistent"]
        return ["split", n, o, i, oid, iid, kind, mode, bond]
    if k == "insert_identity" and edges:
        p, c = rng.choice(edges)
        return ["insert_identity", c, p, fresh()]
    if k == "rename":
        old = rng.choice(ids)
        new = fresh() if rng.random() < 0.8 else old
        if malformed and len(ids) > 1:
            new = rng.choice([x for x in ids if x != old])
        return ["rename", new, old]
    if k == "replace_tensor":
        n = rng.choice(ids)
        nl = len(nodes[n][3])
        q = list(range(nl))
        rng.shuffle(q)
        inv = [q.index(x) for x in range(nl)]
        # node legs = new_tensor legs permuted by p ; new = cur.transpose(q) => p = inverse(q)
        if rng.random() < 0.25:
            return ["replace_tensor", n, list(range(nl)), None]
        return ["replace_tensor", n, q, inv]
    return ["access", rng.choice(ids)]


class C02(Prop):
    id = "C02"
    rule = ("random trees (1-7 nodes) built with shuffled leg orders and 0/1/2+ open legs, then 1-12 random edit operations "
            "(contract with fresh/reused/default identifier, QR split in three modes, untruncated SVD split, explicit replacement, "
            "identity insertion, rename, tensor replacement with a permutation, plain access) generated from the observed structure, "
            "plus a malformed stream both sides must reject; non-trivial = at least two nodes and two accepted edit operations")
    clauses = [
        ("F", "store invariant wfb (one root, symmetric links, equal key sets, permutations, recorded shapes = raw tensor dims, edge-wire consistency, "
              "no other sharing, acyclic) is preserved by access, contract (fresh/reused identifier), split (QR 3 modes / SVD / replacement, any admissible "
              "leg specs and identifiers), insert_identity, rename, replace_tensor (with the inverse permutation), add_root/add_child, and by every sequence "
              "(C02_step_preserves_wfb, C02_run_preserves_wf, C02_run_wfb_empty)"),
        ("F", "diagram preservation: total atoms and the multiset of wire ends are unchanged by access/contract/rename/replace (split: plus the two fresh atoms and "
              "the new bond twice, with the recorded definition = the split tensor transposed to out-legs ++ in-legs); open-leg rules: contract = first operand's "
              "open legs then the second's, split = the legs named by each spec in spec order (C02_contract_*, C02_split_*)"),
        ("F", "counterexamples proved by computation: an identifier in use by a third node, inadmissible leg specs, or a non-inverse permutation break the invariant "
              "although the code accepts them (they are the stated preconditions; not generated)"),
        ("F", "equal diagrams denote equal tensors over any commutative semiring; s_tensordot/s_transpose denote np.tensordot/np.transpose on entries (Wire/SemProofs.v, SemEntryProofs.v)"),
        ("F", "network VALUE preserved: over any commutative semiring and any atom table, access/rename/replace/contract leave net_value unchanged at every wire "
              "assignment; split under the kernel contract def_holds (Q.R = A over the new bond), insert_identity under eye_atom; lifted to every add_child-free "
              "sequence (C02_run_net_value); a contracted node's tensor is the sum over the bond of the product of the two old tensors (C02_contract_node_value)"),
        ("I", "per explored sequence: ops_okb (the theorems' preconditions), wfb and the extended invariant wfsb (atom tables closed, bound wires private) "
              "on every reachable state, by vm_compute"),
        ("O", "kernel factors (QR/SVD/explicit) are fresh atoms whose product over the new bond equals the input; validated numerically through the dense oracle"),
        ("V", "model = code: exact step-by-step correspondence (structure, dict orders, leg permutations, shapes, every tensor against its diagram)"),
    ]
    trusted_base = ["NumPy transpose/tensordot/reshape implement the diagram operations (exercised exactly with integer-valued tensors)",
                    "LAPACK QR/SVD: factors contract back to the input (validated numerically at every split)"]

    def generate(self, ctx, stream, budget_scale=1):
        rng = ctx.rng(stream)
        n = ctx.scale(150, 1500) * budget_scale
        cases = []
        for j in range(n):
            cases.append({"seed": rng.randrange(10 ** 9), "nnodes": rng.choice([1, 2, 2, 3, 3, 4, 4, 5, 6, 7]),
                          "nedits": rng.randrange(1, 13), "malformed": (j % 6 == 5), "ints": (j % 3 != 0)})
        return cases

    def nontrivial(self, case):
        return case["nnodes"] >= 2 and case["nedits"] >= 2

    def distribution(self, cases):
        c = Counter()
        for x in cases:
            c[f"nodes={x['nnodes']}"] += 1
            c["malformed" if x["malformed"] else "valid"] += 1
        c.update(getattr(self, "_opstats", {}))
        return dict(c)

    # -------------------------------------------------------------------------------------------
    def _run_case(self, case):
        rng = random.Random(case["seed"])
        drv = Driver(nprs=np.random.RandomState(case["seed"] % (2 ** 31)), ints=2 if case.get("ints") else None)
        counter = [0]

        def fresh():
            counter[0] += 1
            return f"x{counter[0]}"
        ops = case.get("ops")
        replay = ops is not None
        steps = []
        if not replay:
            ops = gen_build(rng, case["nnodes"])
        build_len = sum(1 for o in ops if o[0] in ("add_root", "add_child")) if replay else len(ops)
        applied = []
        tokens = None
        dense0 = None
        viol = None
        k = 0
        nedits = 0
        while True:
            if k < len(ops):
                op = ops[k]
            elif not replay and nedits < case["nedits"]:
                op = gen_edit(rng, snapshot(drv.ttn), fresh, malformed=case["malformed"] and rng.random() < 0.4)
                nedits += 1
            else:
                break
            k += 1
            if len(applied) == build_len and tokens is None:
                tokens = {nid: [(nid, j) for j in range(nd.nopen_legs())] for nid, nd in drv.ttn.nodes.items()}
                try:
                    dense0 = dense_by_tokens(drv.ttn, tokens)
                except Exception as e:  # noqa
                    viol = viol or f"initial network not contractible: {e}"
            pre = snapshot(drv.ttn)
            ok, err = drv.apply(op)
            applied.append(op)
            if ok and tokens is not None:
                tokens = self._tokens_after(op, tokens, pre)
            snap = snapshot(drv.ttn)
            raws = {kk: np.array(v) for kk, v in drv.ttn._tensors.data.items()}
            steps.append({"ok": ok, "err": err, "snap": snap, "raws": raws, "exact": drv.exact})
            self._opstats[op[0] + (":ok" if ok else ":rejected")] += 1
            if ok and viol is None and len(applied) > build_len:
                w = well_formed(drv.ttn)
                if w:
                    viol = f"after {op}: {w}"
                elif dense0 is not None:
                    try:
                        d = dense_by_tokens(drv.ttn, tokens)
                        if d is not None:
                            if d.shape != dense0.shape:
                                viol = f"after {op}: open legs not where the documented rules place them (shape {d.shape} vs {dense0.shape})"
                            elif not np.allclose(d, dense0, rtol=1e-9, atol=1e-9 * max(1.0, float(np.max(np.abs(dense0))) if dense0.size else 1.0)):
                                viol = f"after {op}: full contraction changed (max diff {float(np.max(np.abs(d - dense0))):.3e})"
                    except Exception as e:  # noqa
                        viol = f"after {op}: contraction with the documented leg order failed: {e}"
        return {"ops": applied, "steps": steps, "atoms": drv.atoms, "viol": viol, "build_len": build_len}

    @staticmethod
    def _tokens_after(op, tokens, pre):
        t = dict(tokens)
        k = op[0]
        if k == "contract":
            a, b, new = op[1], op[2], op[3] if op[3] is not None else op[1] + "contr" + op[2]
            ta, tb = t.pop(a), t.pop(b)
            t[new] = ta + tb
        elif k == "split":
            _, n, o, i, oid, iid = op[:6]
            oid = oid if oid is not None else "out_of_" + n
            iid = iid if iid is not None else "in_of_" + n
            nd = [x for x in pre["nodes"] if x[0] == n][0]
            nvirt = (nd[1] is not None) + len(nd[2])
            tn = t.pop(n)
            t[oid] = [tn[j - nvirt] for j in o["open"]]
            t[iid] = [tn[j - nvirt] for j in i["open"]]
        elif k == "insert_identity":
            t[op[3]] = []
        elif k == "rename":
            x = t.pop(op[2])
            t[op[1]] = x
        elif k in ("add_root", "add_child"):
            pass
        return t

    def impl(self, ctx, cases):
        self._opstats = Counter()
        out = []
        for c in cases:
            try:
                out.append(self._run_case(c))
            except Exception as e:  # noqa
                import traceback
                out.append({"exception": f"{type(e).__name__}: {e}", "tb": traceback.format_exc()[-2000:], "ops": c.get("ops") or [], "steps": []})
        return out

    def model(self, ctx, cases, obs):
        exprs = []
        self._idmaps = []
        for ob in obs:
            idm = IdMap()
            self._idmaps.append(idm)
            exprs.append(wmodel.coq_run_obs(ob["ops"], idm))
        vals = coq_eval(ctx, wmodel.IMPORTS, exprs, shard=12, scope="nat_scope", timeout=600)
        # instance obligations: the hypotheses of the universal theorems (C02_run_wfb_empty,
        # C02_step_preserves_wfb) hold for the explored sequence, and the executable invariant
        # wfb is true on every state from the first add_root on
        pre = []
        for ob, idm in zip(obs, self._idmaps):
            body = "[" + "; ".join("(" + wmodel.coq_op(o, idm) + ")" for o in ob["ops"]) + "]"
            pre.append(f"(ops_okb empty_store {body}, map2b (run_wfb empty_store {body}) (run_wfsb empty_store {body}))")
        pvals = coq_eval(ctx, wmodel.IMPORTS.replace("TTN.Canon", "TTN.Canon TTN.Inv TTN.InvRun TTN.InvSem") + " Definition map2b (a b : list bool) := map (fun p => andb (fst p) (snd p)) (combine a b).", pre, shard=25, scope="nat_scope", timeout=600)
        self._inst = [0, 0, []]
        for case, ob, pv in zip(cases, obs, pvals):
            if isinstance(pv, BaseException):
                self._inst[0] += 1
                self._inst[2].append(f"seed {case['seed']}: cannot evaluate wfb: {pv}")
                continue
            okb, wl = pv
            accepted = [st["ok"] for st in ob["steps"]]
            self._inst[0] += 1
            if not all(wl[1:]) if len(wl) > 1 else False:
                self._inst[2].append(f"seed {case['seed']}: executable invariant wfb false on a reachable state {wl}")
            elif not okb and all(accepted) and not case.get("malformed"):
                self._inst[2].append(f"seed {case['seed']}: preconditions ops_okb of the preservation theorems not met by an accepted valid sequence")
            else:
                self._inst[1] += 1
        out = []
        for v, idm in zip(vals, self._idmaps):
            if isinstance(v, BaseException):
                out.append(v)
            else:
                out.append([(ok, wmodel.model_obs_to_py(o, idm)) for ok, o in v])
        return out

    def compare(self, case, ob, mo):
        if "exception" in ob:
            return f"harness/implementation exception: {ob['exception']}"
        if len(mo) != len(ob["steps"]):
            return "step count differs"
        for j, (st, (mok, mobs)) in enumerate(zip(ob["steps"], mo)):
            op = ob["ops"][j]
            if st["ok"] != mok:
                return f"step {j} {op}: implementation {'accepted' if st['ok'] else 'rejected (' + str(st['err']) + ')'} but model {'accepted' if mok else 'rejected'}"
            d = wmodel.compare_snapshot(st["snap"], mobs)
            if d:
                return f"step {j} {op}: {d}"
            # values: every raw tensor equals the model diagram evaluated on the atoms
            for kk, raw in st["raws"].items():
                try:
                    val = wmodel.eval_diagram(mobs["tensors"][kk], mobs["atab"], ob["atoms"])
                except Exception as e:  # noqa
                    return f"step {j} {op}: cannot evaluate model diagram of {kk}: {e}"
                if val.shape != raw.shape:
                    return f"step {j} {op}: tensor {kk} shape impl {raw.shape} model {val.shape}"
                if st["exact"]:
                    if not np.array_equal(val, raw):
                        return f"step {j} {op}: tensor {kk} differs from the model diagram (exact integer comparison)"
                elif not np.allclose(val, raw, rtol=1e-8, atol=1e-8 * max(1.0, float(np.max(np.abs(raw))) if raw.size else 1.0)):
                    return f"step {j} {op}: tensor {kk} differs from the model diagram by {float(np.max(np.abs(val - raw))):.3e}"
        return None

    def oracle(self, case, ob):
        if "exception" in ob:
            return f"exception {ob['exception']}"
        if ob["viol"]:
            return ob["viol"]
        if not case.get("malformed"):
            # a documented-valid operation must not be rejected
            for op, st in zip(ob["ops"], ob["steps"]):
                if not st["ok"]:
                    return f"valid operation {op} rejected: {st['err']}"
        return None

    def extra_obligations(self, ctx):
        n, ok, fails = getattr(self, "_inst", [0, 0, []])
        return n, ok, fails[:5]

    def sample_repr(self, case):
        return case

    def shrink(self, ctx, case, pred):
        """minimise the operation sequence: explicit ops, shortest failing prefix, then drop single edit ops"""
        ob = self._run_case(dict(case))
        ops = ob.get("ops")
        if not ops:
            return case
        base = {k: v for k, v in case.items() if k != "ops"}
        nb = ob.get("build_len", 0)

        def fails(o):
            try:
                return pred(dict(base, ops=o))
            except Exception:
                return False
        cur = list(ops)
        if not fails(cur):
            return case
        lo = nb + 1
        for n in range(lo, len(cur) + 1):           # shortest failing prefix
            if fails(cur[:n]):
                cur = cur[:n]
                break
        i = nb
        while i < len(cur) - 1:                      # drop edit ops that are not needed
            cand = cur[:i] + cur[i + 1:]
            if fails(cand):
                cur = cand
            else:
                i += 1
        return dict(base, ops=cur)
