"""C02 — structural edits keep the network well-formed and its contraction unchanged."""
from __future__ import annotations

import copy
import random
import string
from collections import Counter

import numpy as np

from lib import Prop, coq_eval, SkipCase
import wmodel
from wmodel import Driver, IdMap, snapshot, raw_tensor


# ---- the property oracle (independent of the Coq model) ---------------------------------------
def well_formed(ttn):
    """the clauses of the property statement, checked on the public state"""
    nodes = ttn.nodes
    if ttn.root_id is None or ttn.root_id not in nodes:
        return "root id missing from the nodes"
    roots = [k for k, n in nodes.items() if n.parent is None]
    if roots != [ttn.root_id]:
        return f"nodes without parent {roots} but root_id={ttn.root_id}"
    for k, n in nodes.items():
        if n.identifier != k:
            return f"node under key {k} has identifier {n.identifier}"
        if len(set(n.children)) != len(n.children):
            return f"duplicate children at {k}"
        if n.parent is not None:
            if n.parent not in nodes or k not in nodes[n.parent].children:
                return f"{k} names parent {n.parent} which does not list it as a child"
        for c in n.children:
            if c not in nodes or nodes[c].parent != k:
                return f"{k} lists child {c} whose parent is {nodes[c].parent if c in nodes else 'missing'}"
    seen = set()
    todo = [ttn.root_id]
    while todo:
        x = todo.pop()
        if x in seen:
            return "cycle"
        seen.add(x)
        todo += nodes[x].children
    if seen != set(nodes):
        return "not connected"
    if set(ttn._tensors.data.keys()) != set(nodes):
        return f"node keys {sorted(nodes)} != tensor keys {sorted(ttn._tensors.data.keys())}"
    cp = copy.deepcopy(ttn)
    for k, n in cp.nodes.items():
        sh = tuple(n.shape)
        t = cp.tensors[k]
        if tuple(t.shape) != sh:
            return f"recorded shape {sh} of {k} != tensor shape {t.shape}"
        if t.ndim < n.nneighbours():
            return f"{k}: fewer legs than neighbours"
    for k, n in cp.nodes.items():
        if n.parent is not None:
            p = cp.nodes[n.parent]
            # position of the bond at the parent from the (parent, children) lists themselves
            pos = (0 if p.parent is None else 1) + list(p.children).index(k)
            if cp.tensors[k].shape[0] != cp.tensors[n.parent].shape[pos]:
                return f"bond {n.parent}-{k}: different dimensions at the two ends"
    return None


def dense_pairwise(cp, tokens):
    """full contraction without einsum (no limit on the number of legs): every subtree is contracted into
    its parent with np.tensordot over the one bond they share; open legs ordered by their tokens"""
    nodes = cp.nodes

    def sub(k):
        n = nodes[k]
        t = np.asarray(cp.tensors[k])
        labels = ([("e", n.parent, k)] if n.parent is not None else []) + [("e", k, c) for c in n.children]
        toks = tokens[k]
        if len(labels) + len(toks) != t.ndim:
            raise ValueError(f"{k}: {t.ndim} legs but {len(labels)} neighbours and {len(toks)} tracked open legs")
        labels = labels + [("o", tk) for tk in toks]
        for c in n.children:
            tc, lc = sub(c)
            pos = labels.index(("e", k, c))
            if lc[0] != ("e", k, c):
                raise ValueError(f"{c}: first leg is not the leg to its parent {k}")
            t = np.tensordot(t, tc, axes=([pos], [0]))
            labels = labels[:pos] + labels[pos + 1:] + lc[1:]
        return t, labels
    t, labels = sub(cp.root_id)
    want = [("o", tk) for tk in sorted(x[1] for x in labels)]
    return t.transpose([labels.index(x) for x in want]) if want else t


def dense_by_tokens(ttn, tokens, big=False):
    """full contraction (einsum on a copy); open legs ordered by their tokens (big=True: networks with
    more than 52 bonds + open legs are contracted pairwise instead of being skipped)"""
    cp = copy.deepcopy(ttn)
    lab = {}

    def L(x):
        if x not in lab:
            lab[x] = len(lab)
        return lab[x]
    args = []
    alltok = []
    for k, n in cp.nodes.items():
        t = cp.tensors[k]
        sub = []
        if n.parent is not None:
            sub.append(L(("e", n.parent, k)))
        for c in n.children:
            sub.append(L(("e", k, c)))
        toks = tokens[k]
        if len(sub) + len(toks) != t.ndim:
            raise ValueError(f"{k}: {t.ndim} legs but {len(sub)} neighbours and {len(toks)} tracked open legs")
        for tk in toks:
            sub.append(L(("o", tk)))
            alltok.append(tk)
        args += [t, sub]
    out = [L(("o", tk)) for tk in sorted(alltok)]
    if len(lab) > 52:
        return dense_pairwise(cp, tokens) if big else None
    return np.einsum(*args, out, optimize=True)


# ---- read-only queries between the edits ("measure between steps") -------------------------------
def run_query(ttn, op):
    """["query", node, scope]: plain look-ups through the public read-only API on the LIVE network
    (neighbour positions, bond / neighbour / parent-leg dimensions, recorded shape, open legs; scope
    "all": the same for every node, and the bond dimensions of the whole network; scope "contract": the
    library's own full contraction of the live network, see query_full_contraction). Returns None or a description of
    an answer that contradicts the public state; the reference is computed from the (parent, children)
    lists and the stored array with its pending permutation, never from the looked-up value."""
    _, n, scope = op
    if scope == "contract":
        return query_full_contraction(ttn, n)
    node = ttn.nodes[n]
    raw = ttn._tensors.data[n]
    perm = list(node.leg_permutation)
    nbs = ([node.parent] if node.parent is not None else []) + list(node.children)
    logical = [raw.shape[x] for x in perm]
    if list(node.shape) != logical:
        return f"query {n}: shape reports {list(node.shape)}, stored array in logical order has {logical}"
    nv = len(nbs)
    if list(node.open_legs) != list(range(nv, len(perm))) or node.nopen_legs() != len(perm) - nv:
        return f"query {n}: open_legs {list(node.open_legs)} but the node has {nv} neighbours and {len(perm)} legs"
    for pos, nb in enumerate(nbs):
        got = node.neighbour_index(nb)
        if got != pos:
            return f"query {n}: neighbour_index({nb}) = {got}, but {nb} is at position {pos} of (parent, children) = {nbs}"
        for what, got in (("neighbour_dim", node.neighbour_dim(nb)), ("bond_dim", ttn.bond_dim(n, nb))):
            if got != logical[pos]:
                return f"query {n}: {what}({nb}) = {got}, but the leg towards {nb} has dimension {logical[pos]}"
    if node.parent is not None:
        for what, got in (("parent_leg_dim", node.parent_leg_dim()), ("bond_dim(default)", ttn.bond_dim(n))):
            if got != logical[0]:
                return f"query {n}: {what} = {got}, but the parent leg has dimension {logical[0]}"
    if scope == "all":
        for k in list(ttn.nodes):
            if k != n:
                w = run_query(ttn, ["query", k, "node"])
                if w:
                    return w
        got = ttn.bond_dims()
        ref = {}
        for k, nd in ttn.nodes.items():
            if nd.parent is not None:
                ref[(nd.parent, k)] = ttn._tensors.data[k].shape[list(nd.leg_permutation)[0]]
        if dict(got) != ref:
            return f"query: bond_dims() = {dict(got)}, the parent legs of the stored arrays give {ref}"
        if len(ttn.nodes) > 1 and ttn.max_bond_dim() != max(ref.values()):
            return f"query: max_bond_dim() = {ttn.max_bond_dim()}, largest bond is {max(ref.values())}"
    return None


def reference_full_contraction(ttn, max_size=2 ** 18):
    """Independent dense reference for the library's own full contraction: einsum over the STORED arrays
    brought into (parent, children, open) order by the node's pending permutation (no access through the
    library, so the live network is not touched). The documented result: the open legs of the nodes in
    contraction order (= depth-first pre-order, children in the order of the children lists: every
    contract_nodes(a, b) puts a's open legs before b's), together with that order. Returns
    (tensor or None when too large, order)."""
    nodes = ttn.nodes
    order = []
    todo = [ttn.root_id]
    while todo:
        x = todo.pop()
        order.append(x)
        todo += list(reversed(nodes[x].children))
    lab = {}

    def L(x):
        if x not in lab:
            lab[x] = len(lab)
        return lab[x]
    args = []
    out = []
    size = 1
    for k in order:
        nd = nodes[k]
        t = np.asarray(ttn._tensors.data[k]).transpose(list(nd.leg_permutation))
        sub = []
        if nd.parent is not None:
            sub.append(L(("e", nd.parent, k)))
        for c in nd.children:
            sub.append(L(("e", k, c)))
        for j in range(len(sub), t.ndim):
            sub.append(L(("o", k, j)))
            out.append(lab[("o", k, j)])
            size *= t.shape[j]
        args += [t, sub]
    if len(lab) > 52 or size > max_size:
        return None, order
    return np.einsum(*args, out, optimize=True), order


def query_full_contraction(ttn, n):
    """["query", n, "contract"]: the library's OWN full contraction (`completely_contract_tree`, a public
    entry point named by the property: method and module function, on a copy and in place on a deep copy of
    the network, and asked twice) on the LIVE network, whatever permutations are pending on its nodes and
    however many nodes it has (one node: nothing to contract). Judged against `reference_full_contraction`."""
    from pytreenet.contractions.tree_contraction import completely_contract_tree as cct
    ref, order = reference_full_contraction(ttn)
    if ref is None:
        return None
    scale = max(1.0, float(np.max(np.abs(ref)))) if ref.size else 1.0
    routes = [("ttn.completely_contract_tree(to_copy=True)", lambda: ttn.completely_contract_tree(to_copy=True)),
              ("completely_contract_tree(ttn, to_copy=True)", lambda: cct(ttn, to_copy=True)),
              ("completely_contract_tree(deep copy of ttn)", lambda: cct(copy.deepcopy(ttn))),
              ("deep copy of ttn .completely_contract_tree()", lambda: copy.deepcopy(ttn).completely_contract_tree()),
              ("ttn.completely_contract_tree(to_copy=True), asked again", lambda: ttn.completely_contract_tree(to_copy=True))]
    for name, f in routes:
        found, got_order = f()
        found = np.asarray(found)
        where = f"query {n}: full contraction by {name} of the {len(ttn.nodes)}-node network"
        if list(got_order) != order:
            return f"{where}: contraction order {list(got_order)}, depth-first order of the tree is {order}"
        if tuple(found.shape) != tuple(ref.shape):
            return (f"{where}: open legs not where the documented rules place them: shape {tuple(found.shape)}, "
                    f"open legs of {order} in this order have {tuple(ref.shape)}")
        if not np.allclose(found, ref, rtol=1e-9, atol=1e-9 * scale):
            return (f"{where}: differs from the dense contraction of the stored tensors by "
                    f"{float(np.max(np.abs(found - ref))):.3e} (scale {scale:.3e})")
    return None


# ---- operation generator --------------------------------------------------------------------------
def gen_build(rng, nnodes, nopen_choices=(0, 1, 1, 1, 2, 3), dim_choices=(1, 2, 2, 3)):
    """add_root/add_child ops: random tree, random shapes, random leg positions, 0/1/2+ open legs"""
    parents = [None] + [rng.randrange(0, i) for i in range(1, nnodes)]
    open_dims = [[rng.choice(dim_choices) for _ in range(rng.choice(nopen_choices))] for _ in range(nnodes)]
    bond = {i: rng.choice(dim_choices) for i in range(1, nnodes)}
    return gen_build_on(rng, parents, open_dims, bond)


def gen_build_on(rng, parents, open_dims, bond, shuffle=True):
    """add_root/add_child ops for the given tree: node i is "n{i}", its open legs have the given
    dimensions (in that logical order), legs of every tensor are handed over in a random order and
    children are attached in a random order (so child order and lazy permutations vary)."""
    nnodes = len(parents)
    ops = []
    names = [f"n{i}" for i in range(nnodes)]
    cur = {}
    order = [0]
    frontier = [i for i in range(1, nnodes) if parents[i] == 0]
    while frontier:
        c = frontier.pop(rng.randrange(len(frontier)) if shuffle else 0)
        order.append(c)
        frontier += [i for i in range(1, nnodes) if parents[i] == c]
    for i in order:
        legs = []
        if parents[i] is not None:
            legs.append(("p", bond[i]))
        for j in range(nnodes):
            if parents[j] == i:
                legs.append(("c", j, bond[j]))
        for k, d in enumerate(open_dims[i]):
            legs.append(("o", k, d))
        if shuffle:
            rng.shuffle(legs)
            # open legs must keep their logical order among themselves
            opos = [k for k, l in enumerate(legs) if l[0] == "o"]
            osorted = sorted([legs[k] for k in opos], key=lambda l: l[1])
            for k, l in zip(opos, osorted):
                legs[k] = l
        shape = [l[-1] for l in legs]
        if parents[i] is None:
            ops.append(["add_root", names[i], shape])
            cur[i] = legs
        else:
            p = parents[i]
            cleg = [k for k, l in enumerate(legs) if l[0] == "p"][0]
            pl = cur[p]
            pleg = [k for k, l in enumerate(pl) if l[0] == "c" and l[1] == i][0]
            nvirt = sum(1 for l in pl if l[0] == "P" or l[0] == "C")
            ops.append(["add_child", names[i], shape, cleg, names[p], pleg])
            x = pl.pop(pleg)
            pl.insert(nvirt, ("C", x[1], x[2]))
            x = legs.pop(cleg)
            legs.insert(0, ("P", x[1]))
            cur[i] = legs
    return ops


def balanced_partition(rng, node):
    """a partition of the legs of `node` (a snapshot entry) into two parts whose matricisation is as square
    as possible: all partitions of (children, open legs) are enumerated (at most 4096, else sampled), the
    parent leg stays with the first part; one of those with min(rows, cols) > 100 is drawn at random if
    there is any, else one of those within a factor 2 of the best. Returns (children, open) of both parts,
    each in random order."""
    _, par, ch, perm, shape, _ = node
    cur = [shape[x] for x in perm]
    nvirt = (par is not None) + len(ch)
    legs = [("c", c, cur[(par is not None) + j]) for j, c in enumerate(ch)] + [("o", j, cur[j]) for j in range(nvirt, len(perm))]
    base = cur[0] if par is not None else 1
    nl = len(legs)
    masks = range(2 ** nl) if nl <= 12 else [rng.getrandbits(nl) for _ in range(4096)]
    scored = []
    for m in masks:
        a, b = base, 1
        for j, l in enumerate(legs):
            if (m >> j) & 1:
                a *= l[2]
            else:
                b *= l[2]
        scored.append((min(a, b), m))
    best = max(x[0] for x in scored)
    pool = [m for sc, m in scored if sc > 100] or [m for sc, m in scored if 2 * sc >= best]
    m = rng.choice(pool)
    first = [l for j, l in enumerate(legs) if (m >> j) & 1]
    second = [l for j, l in enumerate(legs) if not (m >> j) & 1]
    rng.shuffle(first)
    rng.shuffle(second)
    part = lambda ls: ([l[1] for l in ls if l[0] == "c"], [l[1] for l in ls if l[0] == "o"])
    return part(first), part(second)


def gen_edit(rng, snap, fresh, malformed=False, queries=False, balanced=0.0, kinds=None, split_kind=None, children=False):
    """one edit op generated from the current observable structure (queries=True: also read-only
    ["query", node, scope] operations, which only C02 executes; balanced = probability that a split takes
    the LARGEST node and a near-square partition of its legs, see balanced_partition; kinds / split_kind
    restrict the operation kind / the split kind)"""
    nodes = {n[0]: n for n in snap["nodes"]}
    ids = list(nodes)
    edges = [(n[1], n[0]) for n in snap["nodes"] if n[1] is not None]
    if kinds is None:
        kinds = ["contract"] * 4 + ["split"] * 5 + ["insert_identity", "rename", "replace_tensor", "access", "access"]
        if queries:
            kinds = kinds + ["query"] * 4
        if children:
            kinds = kinds + ["contract_children"] * 3
    k = rng.choice(kinds)
    if k == "query":
        return ["query", rng.choice(ids), rng.choice(["node", "node", "all", "contract"])]
    if k == "contract_children":
        # ["contract_children", node, new]: the public composite contract_all_children(node, new_identifier) - all children
        # of the node are contracted into it, one after the other in the order of its children list; identifier: default
        # (None: the node's own), the node's own given explicitly, or a fresh one. Half of the time the node with the MOST
        # children is taken (1, 2, 3+ children all occur), else any node (a leaf: nothing to contract).
        with_ch = [x for x in ids if nodes[x][2]]
        if with_ch and rng.random() < 0.5:
            n = max(with_ch, key=lambda x: len(nodes[x][2]))
        else:
            n = rng.choice(with_ch if with_ch and rng.random() < 0.85 else ids)
        new = rng.choice([None, n, fresh(), fresh()])
        return ["contract_children", n, new]
    if k == "contract" and edges:
        p, c = rng.choice(edges)
        a, b = (p, c) if rng.random() < 0.5 else (c, p)
        if malformed and len(ids) > 2:
            a, b = rng.sample(ids, 2)          # mostly non-neighbours: both sides must reject
        # an identifier in use by a third node is outside the documented precondition (not generated)
        new = rng.choice([None, fresh(), a, b])
        if new is None and not malformed and (a + "contr" + b) in set(ids) - {a, b}:
            new = fresh()            # the default identifier is in use by a third node (possible once identifiers are recycled)
        return ["contract", a, b, new]
    if k == "split":
        n = rng.choice(ids)
        _, par, ch, perm, shape, _ = nodes[n]
        nlegs = len(perm)
        nvirt = (par is not None) + len(ch)
        opens = list(range(nvirt, nlegs))
        rng.shuffle(opens)
        chs = list(ch)
        rng.shuffle(chs)
        co = rng.randrange(len(chs) + 1)
        oo = rng.randrange(len(opens) + 1)
        o = {"parent": None, "children": chs[:co], "open": opens[:oo], "root": False}
        i = {"parent": None, "children": chs[co:], "open": opens[oo:], "root": False}
        top = o if rng.random() < 0.5 else i
        if balanced and not malformed and rng.random() < balanced:
            n = max(ids, key=lambda x: int(np.prod(nodes[x][4])) if nodes[x][4] else 1)
            _, par, ch, perm, shape, _ = nodes[n]
            (c1, o1), (c2, o2) = balanced_partition(rng, nodes[n])
            o = {"parent": None, "children": c1, "open": o1, "root": False}
            i = {"parent": None, "children": c2, "open": o2, "root": False}
            top = o
            if rng.random() < 0.5:
                o, i = i, o
        if par is not None:
            top["parent"] = par
        else:
            top["root"] = True
        kind = rng.choice([0, 0, 0, 1, 2])
        if split_kind is not None:
            kind = split_kind
        mode = rng.choice(["reduced", "full", "keep"]) if kind == 0 else "reduced"
        nin = len(i["children"]) + len(i["open"]) + (i["parent"] is not None)
        if kind == 0 and mode == "keep" and nin == 0:
            mode = "reduced"
        idc = rng.random()
        if idc < 0.3:
            oid, iid = fresh(), fresh()
        elif idc < 0.5:
            oid, iid = n, fresh()
        elif idc < 0.7:
            oid, iid = fresh(), n
        elif idc < 0.85:
            oid, iid = None, None
        else:
            oid, iid = (None, fresh()) if rng.random() < 0.5 else (fresh(), None)
        if kind == 2:
            oid = oid or fresh()
            iid = iid or fresh()
        others = set(ids) - {n}
        for _ in range(10):
            # identifiers (given or default) in use by a third node or equal to each other are outside the documented
            # precondition; this can only happen once freed identifiers are recycled by `fresh`
            oid2 = oid if oid is not None else "out_of_" + n
            iid2 = iid if iid is not None else "in_of_" + n
            if oid2 != iid2 and oid2 not in others and iid2 not in others:
                break
            if oid2 in others or oid2 == iid2:
                oid = fresh()
            if iid2 in others:
                iid = fresh()
        # bond for an explicit replacement: min(m, n) (+1: zero-padded)
        cur_shape = [shape[x] for x in perm]
        lv = lambda d: ([0] if d["parent"] is not None else []) + [(1 if par is not None else 0) + ch.index(c) for c in d["children"]] + d["open"]
        m_ = int(np.prod([cur_shape[x] for x in lv(o)])) if lv(o) else 1
        n_ = int(np.prod([cur_shape[x] for x in lv(i)])) if lv(i) else 1
        bond = min(m_, n_) + rng.choice([0, 0, 1])
        if kind == 0 and mode == "full" and m_ > 256:
            mode = "reduced"      # a complete QR of an m x m matrix with m in the thousands is a memory test, not a structural one
        if kind == 0 and mode == "keep" and n_ > 1024:
            mode = "reduced"      # likewise: 'keep' makes the new bond as large as ALL the legs of the second part together (rows x n_ zero-padded factor)
        if malformed:
            which = rng.randrange(3)
            if which == 0 and opens:
                i["open"] = i["open"] + o["open"][:1] if o["open"] else i["open"][:-1]
            elif which == 1:
                o["root"] = i["root"] = True
            else:
                o["children"] = o["children"] + ["nonexistent"]
        return ["split", n, o, i, oid, iid, kind, mode, bond]
    if k == "insert_identity" and edges:
        p, c = rng.choice(edges)
        return ["insert_identity", c, p, fresh()]
    if k == "rename":
        old = rng.choice(ids)
        new = fresh() if rng.random() < 0.8 else old
        if malformed and len(ids) > 1:
            new = rng.choice([x for x in ids if x != old])
        return ["rename", new, old]
    if k == "replace_tensor":
        n = rng.choice(ids)
        nl = len(nodes[n][3])
        q = list(range(nl))
        rng.shuffle(q)
        inv = [q.index(x) for x in range(nl)]
        # node legs = new_tensor legs permuted by p ; new = cur.transpose(q) => p = inverse(q)
        if rng.random() < 0.25:
            return ["replace_tensor", n, list(range(nl)), None]
        return ["replace_tensor", n, q, inv]
    return ["access", rng.choice(ids)]


REJECT_KINDS = ["contract", "split", "split", "rename", "replace_tensor", "replace_tensor", "replace_tensor", "insert_identity", "access",
                "contract_children"]


def gen_reject(rng, op, snap, stale):
    """a call of the same kind as the documented-valid `op` that the library must REJECT (it raises, the caller
    catches the exception and keeps using the network): a wrong argument of the kind a caller gets wrong -
    contract: two nodes that are no neighbours, or a stale identifier (one that was freed by an earlier rename /
              contraction / split, `stale`; 'nonexistent' if there is none yet);
    split:    a leg specification that names a stale / non-neighbouring node, or a leg partition that misses one open
              leg or names one twice;
    rename / access / contract_children: of a stale identifier;
    replace_tensor: the transposed tensor handed over WITHOUT its permutation, or with a permutation that does not
              bring it back to the node's shape (only when the shapes then really differ);
    insert_identity: the two nodes in the wrong order, or two nodes that are no neighbours.
    Only rejections the library decides BEFORE it starts writing are generated (a split whose two specifications both
    claim the parent / root is rejected half-way by the library, see the coverage text; a rename to an identifier in use
    was, until repo fix 7db90c1, and is generated since). Returns the op or None when no such variant exists here."""
    nodes = {n[0]: n for n in snap["nodes"]}
    ids = list(nodes)
    gone = stale() or "nonexistent"
    adjacent = lambda x, y: nodes[x][1] == y or nodes[y][1] == x
    k = op[0]
    if k == "contract":
        _, a, b, new = op
        far = [(x, y) for x in ids for y in ids if x != y and not adjacent(x, y)]
        if far and rng.random() < 0.6:
            x, y = rng.choice(far)
            return ["contract", x, y, new if new not in (a, b) else rng.choice([x, y])]
        return ["contract", a, gone, new if new != b else None] if rng.random() < 0.5 else ["contract", gone, b, new if new != a else None]
    if k == "split":
        op = copy.deepcopy(op)
        o, i = op[2], op[3]
        opens = o["open"] + i["open"]
        chs = o["children"] + i["children"]
        which = rng.randrange(3)
        if which == 0 and opens:
            d = o if (o["open"] and (not i["open"] or rng.random() < 0.5)) else i
            if rng.random() < 0.5:
                d["open"] = d["open"][:-1]                                   # a leg is missing from the partition
            else:
                (i if d is o else o)["open"].append(d["open"][0])             # a leg is named twice
            return op
        d = rng.choice([o, i])
        others = [x for x in ids if x != op[1] and not adjacent(x, op[1])]
        wrong = rng.choice(others) if others and rng.random() < 0.5 else gone
        if chs and rng.random() < 0.6:
            d = o if (o["children"] and (not i["children"] or rng.random() < 0.5)) else i
            d["children"][rng.randrange(len(d["children"]))] = wrong            # typo / stale identifier of a child
        else:
            d["children"] = d["children"] + [wrong]
        return op
    if k == "rename":
        taken = [x for x in ids if x != op[2]]
        if taken and rng.random() < 0.5:
            return ["rename", rng.choice(taken), op[2]]                         # the new identifier is in use (refused before
                                                                                 # anything moves since repo fix 7db90c1)
        return ["rename", op[1] if op[1] != op[2] else gone + "_", gone]
    if k == "access":
        return ["access", gone]
    if k == "contract_children":
        return ["contract_children", gone, op[2] if op[2] != op[1] else gone]
    if k == "insert_identity":
        _, c, p, new = op
        far = [(x, y) for x in ids for y in ids if x != y and not adjacent(x, y)]
        if far and rng.random() < 0.5:
            x, y = rng.choice(far)
            return ["insert_identity", x, y, new]
        return ["insert_identity", p, c, new]
    if k == "replace_tensor":
        _, n, q, pinv = op
        _, par, ch, perm, shape, _ = nodes[n]
        cur = [shape[x] for x in perm]
        nl = len(cur)
        for _ in range(8):
            q2 = list(range(nl))
            rng.shuffle(q2)
            new_shape = [cur[x] for x in q2]
            if rng.random() < 0.5:
                if new_shape != cur:
                    return ["replace_tensor", n, q2, None]                      # the permutation was forgotten
            else:
                p2 = list(range(nl))
                rng.shuffle(p2)
                if [new_shape[x] for x in p2] != cur:
                    return ["replace_tensor", n, q2, p2]                        # a wrong permutation
        return None
    return None


class LiveDriver(Driver):
    """wmodel.Driver plus (a) the composite operation ["contract_children", node, new] =
    TreeTensorNetwork.contract_all_children(node, new_identifier=new) and (b) `live`: when the library REJECTS a call the
    network is NOT restored from a backup - the caller has caught the exception and keeps using the very same object
    (the backup is kept in `self.backup` so that the harness can go on after it has reported a damaged network)."""
    live = False
    backup = None

    def apply(self, op):
        live_obj = self.ttn
        ok, err = Driver.apply(self, op)          # on an exception: self.ttn = deep copy taken before the call
        if self.live and not ok:
            self.backup, self.ttn = self.ttn, live_obj
        return ok, err

    def _apply(self, op):
        if op[0] == "contract_children":
            _, n, new = op
            if new is None:
                self.ttn.contract_all_children(n)
            else:
                self.ttn.contract_all_children(n, new_identifier=new)
            return
        return Driver._apply(self, op)


def rejected_call_changes(pre, pre_raws, ttn, named):
    """What did a REJECTED call do to the network? Returns (message or None, flushed): message = a difference between the
    public state before (`pre`, `pre_raws`) and now; the only difference tolerated is that a node the call NAMED has had
    its pending leg permutation carried out (stored array transposed by it, permutation reset, recorded shape
    accordingly), which is what a plain access `ttn.tensors[id]` does and is listed by the property as an operation of
    its own (`flushed` = those nodes)."""
    post = snapshot(ttn)
    if post["root"] != pre["root"]:
        return f"root_id was {pre['root']}, is {post['root']}", []
    if [n[0] for n in post["nodes"]] != [n[0] for n in pre["nodes"]]:
        return f"node keys were {[n[0] for n in pre['nodes']]}, are {[n[0] for n in post['nodes']]}", []
    if post["tkeys"] != pre["tkeys"]:
        return f"tensor keys were {pre['tkeys']}, are {post['tkeys']}", []
    flushed = []
    for a, b in zip(pre["nodes"], post["nodes"]):
        k = a[0]
        raw0, raw1 = pre_raws[k], ttn._tensors.data[k]
        if a == b:
            if raw0.shape != raw1.shape or not np.array_equal(raw0, raw1):
                return f"stored tensor of {k} changed", []
            continue
        if a[:3] != b[:3] or a[5] != b[5]:
            return f"node {k} was (parent, children) = {a[1:3]}, is {b[1:3]} (identifier {b[5]})", []
        perm = a[3]
        if (k in named and b[3] == list(range(len(perm))) and b[4] == [a[4][x] for x in perm] and raw1.shape == tuple(b[4])
                and np.array_equal(raw1, raw0.transpose(perm))):
            flushed.append(k)
            continue
        return (f"node {k} had leg permutation {a[3]} / recorded shape {a[4]} / stored array of shape {list(raw0.shape)}, now has "
                f"{b[3]} / {b[4]} / {list(raw1.shape)}" + ("" if raw0.shape != raw1.shape or not np.array_equal(raw0, raw1) else
                                                           " with the stored array untouched")), []
    return None, flushed


def gen_large_build(rng, flavour, thorough=False):
    """LARGE members of the tree / shape families (the property quantifies over all trees and all nodes;
    shortcuts taken only above a size threshold are not reached by legs of dimension 1-3 on 1-7 nodes):
    `bond`  = 1-3 nodes, one of them with open legs that can be divided into two groups of total dimension
              101..300 each (thorough: ..500): either one leg of that dimension or several legs of dimension
              2..16, or four equal legs of dimension 11..14; a near-square split of it creates a bond > 100;
    `nodes` = 12-30 nodes (thorough: -48), bushy or chain-like, legs of dimension 1-3, total open dimension <= 2^12;
    `legs`  = 2-6 nodes around a hub with 2-5 children and 4-8 open legs (up to 14 legs on one node).
    Returns the add_root/add_child operations."""
    prod = lambda l: int(np.prod(l)) if l else 1
    if flavour == "bond":
        nn = rng.choice([1, 2, 2, 3])
        parents = [None] + [rng.randrange(0, i) for i in range(1, nn)]
        big = rng.randrange(nn)
        open_dims = [[rng.choice((1, 2)) for _ in range(rng.choice((0, 1)))] for _ in range(nn)]
        bond = {i: rng.choice((1, 2, 2, 3)) for i in range(1, nn)}
        hi, cap = (501, 250000) if thorough else (301, 120000)
        while True:
            if rng.random() < 0.25:
                d = rng.randrange(11, 15)
                alld = [d] * 4
            else:
                alld = []
                for _ in range(2):
                    target = rng.choice([rng.randrange(101, hi), rng.randrange(101, 140), rng.choice([101, 127, 128, 129, 255, 256, 257])])
                    if rng.random() < 0.4:
                        ds = [target]
                    else:
                        ds = []
                        while prod(ds) < target:
                            ds.append(rng.randrange(2, 17))
                    alld += ds
            if prod(alld) <= cap and len(alld) <= 7:
                break
        rng.shuffle(alld)
        open_dims[big] = alld
    elif flavour == "nodes":
        nn = rng.randrange(12, 49 if thorough else 31)
        chain = rng.random() < 0.35
        parents = [None] + [(max(0, i - 1 - rng.choice([0, 0, 0, 1])) if chain else rng.randrange(0, i)) for i in range(1, nn)]
        open_dims = [[] for _ in range(nn)]
        total = 1
        for _ in range(2 * nn):
            d = rng.choice((1, 2, 2, 3))
            if total * d <= 2 ** 12:
                open_dims[rng.randrange(nn)].append(d)
                total *= d
        bond = {i: rng.choice((1, 2, 2, 3)) for i in range(1, nn)}
    else:
        nn = rng.randrange(3, 7)
        hub = rng.randrange(0, 2)
        parents = [None] + [(hub if (i > hub and (i <= hub + 2 or rng.random() < 0.7)) else rng.randrange(0, i)) for i in range(1, nn)]
        open_dims = [[rng.choice((1, 2)) for _ in range(rng.choice((0, 1, 1)))] for _ in range(nn)]
        bond = {i: rng.choice((1, 2, 2, 3)) for i in range(1, nn)}
        while True:
            od = [rng.choice((1, 2, 2, 3)) for _ in range(rng.randrange(4, 9))]
            if prod(od) <= 2 ** 12:
                break
        open_dims[hub] = od
    return gen_build_on(rng, parents, open_dims, bond)


def applicable(op, snap):
    """is `op` a documented-valid operation in the observed structure `snap`? (what gen_edit guarantees
    for its valid stream; used by the shrinker so that dropping operations never turns a later operation
    into an invalid one, e.g. an explicit replacement whose bond became too small for an exact factorisation)"""
    nodes = {n[0]: n for n in snap["nodes"]}
    ids = set(nodes)
    k = op[0]
    try:
        if k in ("access", "query"):
            return op[1] in ids
        if k == "contract":
            _, a, b, new = op
            if a not in ids or b not in ids or a == b:
                return False
            if nodes[a][1] != b and nodes[b][1] != a:
                return False
            return new is None or new not in ids - {a, b}
        if k == "contract_children":
            _, n, new = op
            return n in ids and (new is None or new == n or new not in ids)
        if k == "rename":
            _, new, old = op
            return old in ids and (new == old or new not in ids)
        if k == "insert_identity":
            _, c, par, new = op
            return c in ids and nodes[c][1] == par and new not in ids
        if k == "replace_tensor":
            _, n, q, pinv = op
            if n not in ids:
                return False
            nl = len(nodes[n][3])
            if sorted(q) != list(range(nl)):
                return False
            if pinv is None:
                return list(q) == list(range(nl))
            return list(pinv) == [list(q).index(x) for x in range(nl)]
        if k == "split":
            _, n, o, i, oid, iid, kind, mode, bond = op
            if n not in ids:
                return False
            _, par, ch, perm, shape, _ = nodes[n]
            nvirt = (par is not None) + len(ch)
            if sorted(o["children"] + i["children"]) != sorted(ch):
                return False
            if sorted(o["open"] + i["open"]) != list(range(nvirt, len(perm))):
                return False
            tops = [d for d in (o, i) if d["parent"] is not None or d["root"]]
            if len(tops) != 1:
                return False
            if par is None and not (tops[0]["root"] and tops[0]["parent"] is None):
                return False
            if par is not None and not (tops[0]["parent"] == par and not tops[0]["root"]):
                return False
            oid2 = oid if oid is not None else "out_of_" + n
            iid2 = iid if iid is not None else "in_of_" + n
            if oid2 == iid2 or oid2 in ids - {n} or iid2 in ids - {n}:
                return False
            cur = [shape[x] for x in perm]
            lv = lambda d: ([0] if d["parent"] is not None else []) + [(1 if par is not None else 0) + ch.index(c) for c in d["children"]] + d["open"]
            m_ = int(np.prod([cur[x] for x in lv(o)])) if lv(o) else 1
            n_ = int(np.prod([cur[x] for x in lv(i)])) if lv(i) else 1
            if kind == 2 and bond < min(m_, n_):
                return False
            if kind == 0 and mode == "keep" and not lv(i):
                return False
            if kind == 0 and mode == "full" and m_ > 256:
                return False
            if kind == 0 and mode == "keep" and n_ > 1024:
                return False
            return True
        return k in ("add_root", "add_child")
    except Exception:  # noqa
        return False


def failure_kind(what):
    """coarse class of an oracle message (the shrinker keeps the class of the original failure)"""
    what = str(what)
    if "query" in what:
        return "query"
    if "the REJECTED call" in what:
        return "rejected-call"
    if what.startswith("valid operation"):
        return "rejected"
    if what.startswith("exception"):
        return "exception"
    if "full contraction changed" in what or "open legs not where" in what or "documented leg order failed" in what:
        return "value"
    return "well-formed"


class C02(Prop):
    id = "C02"
    rule = ("random trees (1-7 nodes; LARGE members see below) built with shuffled leg orders and 0/1/2+ open legs, then 1-12 random edit operations "
            "(contract with fresh/reused/default identifier, QR split in three modes, untruncated SVD split, explicit replacement, "
            "identity insertion, rename, tensor replacement with a permutation, plain access) generated from the observed structure, "
            "plus a malformed stream both sides must reject; non-trivial = at least two nodes and two accepted edit operations. "
            "History / configuration families switched on per case (see distribution): `queries` = read-only look-ups on the LIVE network between the "
            "edits (neighbour positions, bond / neighbour / parent-leg dimensions, shapes, open legs, bond_dims; every answer judged against the "
            "(parent, children) lists and the stored arrays, state must stay untouched; not state transitions, so the model skips them); `recycle` = a "
            "'fresh' identifier is with probability 0.4 one that was used EARLIER in the history and has been freed since (contract / split / rename); "
            "`exchange` = the identifiers of 2-3 nodes (mostly siblings) are exchanged through a temporary identifier, with look-ups in between; "
            "`mixed` = every tensor handed over is int64 / float64 / complex128 at random and explicit-replacement factors carry a random complex "
            "unitary gauge (A.U, U^dagger.B), so node and factor data types differ; look-up scope `contract` (one in four look-ups of `queries`, and all over "
            "`collapse`) = the library's OWN full contraction of the LIVE network (completely_contract_tree: method and module function, to_copy=True on the "
            "network itself and in place on a deep copy, asked twice), whatever leg permutations are still pending on its nodes, judged against a dense einsum "
            "over the STORED arrays in (parent, children, open) order with the open legs in depth-first node order and against the depth-first contraction "
            "order (tolerance relative to the largest entry; skipped above 2^18 entries); `collapse` = after the random edits the history goes on contracting "
            "random bonds (operands in either order, fresh / reused / default identifier) until ONE node is left (skipped above 2^14 entries), asking the full "
            "contraction on the way and on the one-node network - there also right after a tensor replacement with a random permutation, and again after a "
            "plain access (distribution: `query:contract one node / 2+ nodes, permutation pending / none pending`). LARGE members (`large`, 6 cases per quick run "
            "spread over the run, 60 per thorough run; distribution `large:bond / nodes / legs`, same case format, so the model tie covers them): `bond` = 1-3 nodes, one of "
            "them with open legs that divide into two groups of total dimension 101..300 each (thorough ..500; one leg of that dimension, several legs of "
            "dimension 2..16, or four equal legs of dimension 11..14; thresholds 101/127/128/129/255/256/257 over-represented; up to 1.2e5 entries, thorough 2.5e5); "
            "`nodes` = 12-30 nodes (thorough -48), bushy or chain-like; `legs` = a hub with 2-5 children and 4-8 open legs (up to 14 legs on one node). Every large "
            "case starts with round trips on its LARGEST node: a near-square split (all partitions of children and open legs enumerated, one with min(rows, cols) > 100 "
            "drawn if there is any) by each of the three split kinds in random order - QR, untruncated SVD (max_bond_dim=inf, tolerances -inf), explicit replacement - "
            "contracted back in between (operands in either order, any identifier choice), then with probability 1/2 each an identity insertion on the new bond and a "
            "tensor replacement with a permutation at one of its ends; the random edits that follow split the largest node near-square with probability 1/2 "
            "(distribution `split:QR/SVD/replace new bond 101..256 / >256`). The dense oracle contracts networks with more than 52 bonds + open legs pairwise "
            "(np.tensordot, leaves upwards) instead of skipping them. The shrinker only drops operations when every remaining one is "
            "still documented-valid where it is applied (or is rejected) and the failure stays of the same class. "
            "ERROR / RETRY paths on the LIVE object (`retry`, a third of the valid cases; distribution `rejected-call:<operation>:<exception>`): before an edit, with "
            "probability 0.35, a call of a random kind that the library must REJECT is made on the network itself - contract of two nodes that are no neighbours or of a "
            "STALE identifier (freed earlier in this history by a rename / contraction / split); split (QR / SVD / replacement) with a leg specification naming a stale or "
            "non-neighbouring node, or a leg partition that misses an open leg or names one twice; rename / access / contract_all_children of a stale identifier; "
            "replace_tensor with the transposed tensor handed over WITHOUT its permutation or with a wrong one (only when the shapes then differ); insert_identity with the "
            "nodes in the wrong order or no neighbours - the exception is caught and the SAME object is used further (no restore from a backup as in the malformed stream): "
            "mostly the corrected call follows (after a look-up when look-ups are on), else the next random edit. Right after the rejected call the oracle demands the network "
            "as it was: root, node and tensor key orders, links, leg permutations, recorded shapes and stored arrays identical, except that a node NAMED by the call may have had "
            "its pending permutation carried out exactly as a plain access does (stored array = old array transposed by it, permutation reset; counted in the distribution), "
            "well-formed, same dense contraction; the model's step returns an error, its store is compared with the state before the call, and the observed accesses are "
            "replayed on it as `Access` steps so that the exact tie goes on. Only rejections decided before the library starts writing are generated: a split whose two specifications both "
            "claim the parent / root is rejected half-way by the library (inadmissible specification = stated precondition; not generated); a rename to an identifier IN USE by another node "
            "was rejected half-way too until repo fix 7db90c1 (found by this family) and is generated since. "
            "COMPOSITE contractions (`allch`, half of the cases; distribution `contract_children:<0|1|2|3+> children:<default|own|fresh> id`): the public "
            "contract_all_children(node, new_identifier) on the node with the most children or a random one (a leaf: nothing happens), identifier default (None = the node's "
            "own), the node's own given explicitly, or fresh; modelled as the sequence Contract(node, child1, new), Contract(new, child2, new), ... of the Coq model in the "
            "order of the children list (after the first contraction the node carries the new identifier), implementation observed after the whole composite and tied to the "
            "model's last state; oracle as for single contractions (the node's open legs first, then the children's in children-list order, result under the documented identifier).")
    clauses = [
        ("F", "store invariant wfb (one root, symmetric links, equal key sets, permutations, recorded shapes = raw tensor dims, edge-wire consistency, "
              "no other sharing, acyclic) is preserved by access, contract (fresh/reused identifier), split (QR 3 modes / SVD / replacement, any admissible "
              "leg specs and identifiers), insert_identity, rename, replace_tensor (with the inverse permutation), add_root/add_child, and by every sequence "
              "(C02_step_preserves_wfb, C02_run_preserves_wf, C02_run_wfb_empty)"),
        ("F", "diagram preservation: total atoms and the multiset of wire ends are unchanged by access/contract/rename/replace (split: plus the two fresh atoms and "
              "the new bond twice, with the recorded definition = the split tensor transposed to out-legs ++ in-legs); open-leg rules: contract = first operand's "
              "open legs then the second's, split = the legs named by each spec in spec order (C02_contract_*, C02_split_*)"),
        ("F", "counterexamples proved by computation: an identifier in use by a third node, inadmissible leg specs, or a non-inverse permutation break the invariant "
              "although the code accepts them (they are the stated preconditions; not generated)"),
        ("F", "equal diagrams denote equal tensors over any commutative semiring; s_tensordot/s_transpose denote np.tensordot/np.transpose on entries (Wire/SemProofs.v, SemEntryProofs.v)"),
        ("F", "network VALUE preserved: over any commutative semiring and any atom table, access/rename/replace/contract leave net_value unchanged at every wire "
              "assignment; split under the kernel contract def_holds (Q.R = A over the new bond), insert_identity under eye_atom; lifted to every add_child-free "
              "sequence (C02_run_net_value); a contracted node's tensor is the sum over the bond of the product of the two old tensors (C02_contract_node_value). "
              "Coverage of C02_run_net_value: its two contracts are stated at ALL indices (eye_atom: identity beyond the wire dimensions too; def_holds: every "
              "assignment), which no table satisfies when an inserted identity node is split later (C02_eye_atom_split_unsatisfiable, over Z): the theorem is "
              "sound but vacuous for such sequences; it covers sequences whose inserted identities are not split afterwards"),
        ("O", "network VALUE preserved, contracts on the INDEX RANGES only (TTN/InvSemEyeRange.v, InvSemRunRange.v): eye_atom_in_range (the fresh atom is the identity "
              "below the dimensions of its two wires) and def_holds_in_range (Q.R = A at every assignment in range on the axes of the split tensor); insert_identity "
              "preserves net_value at every assignment, split and every add_child-free sequence at every assignment in range on the open wires = every entry of the "
              "denoted tensor (C02_insert_identity_net_value_in_range, C02_split_net_value_in_range, C02_run_net_value_in_range, C02_run_net_entry_in_range); recorded "
              "dimensions of existing wires never change (C02_step_wdim_old); implied by the unrestricted premises (C02_contracts_hold_weaken), so this theorem covers "
              "ALL sequences incl. [insert_identity; split of that node], where every premise is satisfiable (C02_example_contracts_in_range, Q.R = I over Z); the "
              "in-range restriction of the conclusion is necessary (C02_example_in_range_needed)"),
        ("I", "per explored sequence: ops_okb (the theorems' preconditions), wfb and the extended invariant wfsb (atom tables closed, bound wires private) "
              "on every reachable state, by vm_compute"),
        ("O", "kernel factors (QR/SVD/explicit) are fresh atoms whose product over the new bond equals the input; validated numerically through the dense oracle, "
              "also for new bonds of dimension 101..300 (thorough ..500) by every split kind (an 'untruncated' SVD must keep ALL min(rows, cols) singular values, as the model's bond dimension says)"),
        ("V", "model = code: exact step-by-step correspondence (structure, dict orders, leg permutations, shapes, every tensor against its diagram); "
              "contract_all_children = the sequence of Contract steps over the children list (tied after the last one)"),
        ("V", "a REJECTED call (exception caught, same object used further) leaves the network as it was up to a plain access of a node it names: judged by the oracle on the "
              "live object right after the call; in the model `step` returns None and `run` keeps the store (TTN/Store.v run / run_obs), so the preservation theorems apply to the "
              "history with the rejected call left out plus the observed Access steps"),
        ("V", "the library's own full contraction (completely_contract_tree, every public route) of the live network - one node or many, with or without pending "
              "leg permutations - equals the dense contraction of the stored tensors with the open legs in depth-first node order, returns the depth-first order "
              "and (to_copy=True) leaves the network untouched: judged by the oracle only (Contr/TensorProd.v models it as a store program for C04)"),
        ("V", "read-only look-ups between edits answer according to the public state and leave it untouched; mixed data types (int64/float64/complex128 "
              "nodes, complex-gauged replacement factors) keep the contraction: judged by the oracle only (the model is data-type agnostic)"),
    ]
    trusted_base = ["NumPy transpose/tensordot/reshape implement the diagram operations (exercised exactly with integer-valued tensors)",
                    "LAPACK QR/SVD: factors contract back to the input (validated numerically at every split); as a theorem premise this is def_holds_in_range "
                    "(Q.R = A at the entries of the split tensor) in C02_run_net_value_in_range, def_holds (at all indices, also out of range) in the older C02_run_net_value",
                    "np.eye in insert_identity is the identity matrix on its index range (eye_atom_in_range; the older eye_atom asks it at all indices and is jointly "
                    "unsatisfiable with def_holds once the inserted node is split)"]

    def generate(self, ctx, stream, budget_scale=1):
        rng = ctx.rng(stream)
        n = ctx.scale(150, 1500) * budget_scale
        cases = []
        for j in range(n):
            cases.append({"seed": rng.randrange(10 ** 9), "nnodes": rng.choice([1, 2, 2, 3, 3, 4, 4, 5, 6, 7]),
                          "nedits": rng.randrange(1, 13), "malformed": (j % 6 == 5), "ints": (j % 3 != 0),
                          # history / configuration families (absent = off, as in older replay files)
                          "queries": j % 2 == 1, "recycle": j % 4 in (1, 2), "exchange": j % 4 == 3 or j % 8 == 1,
                          "mixed": j % 8 in (0, 5), "collapse": j % 5 == 2,
                          # round 7: error / retry paths on the LIVE object; the composite contract_all_children
                          "retry": j % 6 in (1, 4), "allch": j % 6 in (0, 2, 4)})
        # LARGE members (see gen_large_build): a few per run, more and larger ones in the thorough tier
        nl = ctx.scale(6, 60) * budget_scale
        step = max(1, len(cases) // nl)
        for j in range(nl):
            fl = ("bond", "nodes", "legs", "bond", "legs", "bond")[j % 6] if ctx.thorough() else ("bond", "nodes", "legs")[j % 3]
            # spread over the run (the model evaluates contiguous blocks of cases in parallel)
            cases.insert(min(len(cases), j * (step + 1) + step // 2), {"seed": rng.randrange(10 ** 9), "nnodes": 2, "nedits": rng.randrange(2, 9), "malformed": False,
                          "ints": j % 2 == 0, "large": fl, "thorough": ctx.thorough(),
                          "queries": j % 2 == 0, "recycle": j % 4 == 1, "exchange": j % 6 == 5, "mixed": j % 4 == 3,
                          "collapse": (fl == "legs" or (fl == "nodes" and ctx.thorough())) and j % 2 == 1,
                          "retry": j % 3 == 1, "allch": j % 2 == 1})
        return cases

    def nontrivial(self, case):
        return case["nnodes"] >= 2 and case["nedits"] >= 2

    def distribution(self, cases):
        c = Counter()
        for x in cases:
            if x.get("large"):
                c["large:" + x["large"]] += 1
            else:
                c[f"nodes={x['nnodes']}"] += 1
            c["malformed" if x["malformed"] else "valid"] += 1
            fam = [f for f in ("queries", "recycle", "exchange", "mixed", "collapse", "large", "retry", "allch") if x.get(f)]
            for f in fam:
                c["family:" + f] += 1
            if not fam:
                c["family:plain"] += 1
        c.update(getattr(self, "_opstats", {}))
        return dict(c)

    # -------------------------------------------------------------------------------------------
    def _run_case(self, case):
        rng = random.Random(case["seed"])
        kw = {"mixed": True} if case.get("mixed") else {}
        drv = LiveDriver(nprs=np.random.RandomState(case["seed"] % (2 ** 31)), ints=2 if case.get("ints") else None, **kw)
        retry = bool(case.get("retry")) and not case.get("malformed")
        drv.live = retry
        allch = {"children": True} if case.get("allch") else {}
        counter = [0]
        ever = set()          # every identifier that was in the network at some time
        handed = set()        # identifiers handed out for the operation being generated

        def fresh():
            # an identifier that is not in use: brand new, or (recycle) one that was used EARLIER in
            # this history and has been freed since by a contraction, split or identifier change
            if case.get("recycle") and rng.random() < 0.4:
                free = sorted(ever - set(drv.ttn.nodes) - handed)
                if free:
                    x = rng.choice(free)
                    handed.add(x)
                    return x
            counter[0] += 1
            return f"x{counter[0]}"

        def gen_exchange():
            # exchange the identifiers of 2-3 nodes (mostly siblings) through a temporary identifier:
            # a0 -> T, a1 -> a0, ..., T -> a_last; with queries: look-ups in between
            nodes = drv.ttn.nodes
            fams = [list(nd.children) for nd in nodes.values() if len(nd.children) >= 2]
            pool = rng.choice(fams) if fams and rng.random() < 0.7 else list(nodes)
            if len(pool) < 2:
                return []
            cyc = rng.sample(pool, min(len(pool), rng.choice([2, 2, 3])))
            counter[0] += 1
            tmp = f"x{counter[0]}"
            seq = [["rename", tmp, cyc[0]]] + [["rename", cyc[j - 1], cyc[j]] for j in range(1, len(cyc))] + [["rename", cyc[-1], tmp]]
            if case.get("queries"):
                out = []
                for o in seq + [None]:
                    if rng.random() < 0.5:
                        out.append(["query", rng.choice(list(nodes)), rng.choice(["node", "all"])])
                    if o is not None:
                        out.append(o)
                seq = out
            return seq
        collapse = [bool(case.get("collapse")) and not case.get("malformed"), 0]

        def gen_collapse():
            # the history goes on until the network has shrunk to ONE node: contract a random bond, operands
            # in random order, any identifier choice; the library's own full contraction is asked on the way
            # and at the end (there: possibly after a tensor replacement with a permutation, and again after
            # a plain access)
            nodes = drv.ttn.nodes
            collapse[1] += 1
            size = 1 if collapse[1] <= 20 else 2 ** 30
            for nd in nodes.values():
                nv = (nd.parent is not None) + len(nd.children)
                sh = [nd._shape[x] for x in nd.leg_permutation]
                size *= int(np.prod(sh[nv:])) if sh[nv:] else 1
            if size > 2 ** 14:
                collapse[0] = False
                return []
            ever.update(nodes)
            handed.clear()
            if len(nodes) >= 2:
                p, c = rng.choice([(nd.parent, k) for k, nd in nodes.items() if nd.parent is not None])
                a, b = (p, c) if rng.random() < 0.5 else (c, p)
                new = rng.choice([None, fresh(), a, b])
                if new is None and (a + "contr" + b) in set(nodes) - {a, b}:
                    new = fresh()
                seq = [["contract", a, b, new]]
                if rng.random() < 0.5:
                    seq.append(["query", new if new is not None else a + "contr" + b, "contract"])
                return seq
            collapse[0] = False
            n = list(nodes)[0]
            seq = []
            if rng.random() < 0.5:
                nl = len(nodes[n].leg_permutation)
                q = list(range(nl))
                rng.shuffle(q)
                seq.append(["replace_tensor", n, q, [q.index(x) for x in range(nl)]])
            seq.append(["query", n, "contract"])
            if rng.random() < 0.5:
                seq += [["access", n], ["query", n, rng.choice(["contract", "all"])]]
            return seq
        large = case.get("large")
        last_split = [None]

        def forced_split(kind):
            def f():
                op = gen_edit(rng, snapshot(drv.ttn), fresh, balanced=1.0, kinds=["split"], split_kind=kind)
                last_split[0] = op
                return op
            return f

        def forced_back():
            # contract the two parts of the last split again (operands in either order, any identifier choice)
            op = last_split[0]
            if op is None:
                return None
            a = op[4] if op[4] is not None else "out_of_" + op[1]
            b = op[5] if op[5] is not None else "in_of_" + op[1]
            nodes = drv.ttn.nodes
            if a not in nodes or b not in nodes:
                return None
            if rng.random() < 0.5:
                a, b = b, a
            new = rng.choice([None, fresh(), a, b])
            if new is None and (a + "contr" + b) in set(nodes) - {a, b}:
                new = fresh()
            return ["contract", a, b, new]
        def last_parts():
            op = last_split[0]
            if op is None:
                return None
            a = op[4] if op[4] is not None else "out_of_" + op[1]
            b = op[5] if op[5] is not None else "in_of_" + op[1]
            nodes = drv.ttn.nodes
            if a not in nodes or b not in nodes:
                return None
            return (a, b) if nodes[a].parent == b else (b, a)

        def forced_identity():
            ab = last_parts()
            return None if ab is None else ["insert_identity", ab[0], ab[1], fresh()]

        def forced_replace():
            ab = last_parts()
            if ab is None:
                return None
            n = rng.choice(ab)
            nl = len(drv.ttn.nodes[n].leg_permutation)
            q = list(range(nl))
            rng.shuffle(q)
            return ["replace_tensor", n, q, [q.index(x) for x in range(nl)]]
        forced = []
        if large and not case.get("malformed"):
            # round trips on the LARGEST node: near-square split by each of the three split kinds (random
            # order), contracted back in between; then the random edits go on from there
            order3 = [0, 1, 2]
            rng.shuffle(order3)
            for j, kd in enumerate(order3):
                forced.append(forced_split(kd))
                if j < 2:
                    forced.append(forced_back)
            # ... and on the bond the last split created (the largest one around): an identity insertion and a
            # tensor replacement with a permutation on one of its ends, each with probability 1/2
            if rng.random() < 0.5:
                forced.append(forced_identity)
            if rng.random() < 0.5:
                forced.append(forced_replace)
        def stale():
            free = sorted(ever - set(drv.ttn.nodes))
            return rng.choice(free) if free else None

        def gen_retry(snap):
            # a call the library must REJECT (see gen_reject), derived from a documented-valid call of a random kind; the
            # caller catches the exception and goes on with the same object: mostly with the corrected call (after a
            # look-up, when look-ups are on), else with whatever comes next
            kd = rng.choice(REJECT_KINDS)
            if kd == "contract_children" and not allch:
                kd = "access"
            good = gen_edit(rng, snap, fresh, kinds=[kd], children=bool(allch))
            bad = gen_reject(rng, good, snap, stale)
            if bad is None:
                return []
            seq = [bad]
            if case.get("queries") and rng.random() < 0.5:
                seq.append(["query", rng.choice([n[0] for n in snap["nodes"]]), rng.choice(["node", "all", "contract"])])
            if rng.random() < 0.6:
                seq.append(good)
            return seq
        pending = []
        mops = []             # what the Coq model runs and the tie compares (see _mops)
        msteps = []
        ops = case.get("ops")
        replay = ops is not None
        steps = []
        if not replay:
            ops = gen_large_build(rng, large, bool(case.get("thorough"))) if large else gen_build(rng, case["nnodes"])
        build_len = sum(1 for o in ops if o[0] in ("add_root", "add_child")) if replay else len(ops)
        applied = []
        tokens = None
        dense0 = None
        viol = None
        inapplicable = None
        k = 0
        nedits = 0
        while True:
            if k < len(ops):
                op = ops[k]
                k += 1
            elif not replay and forced:
                ever.update(drv.ttn.nodes)
                handed.clear()
                op = forced.pop(0)()
                if op is None:
                    continue
            elif not replay and pending:
                op = pending.pop(0)
                if op[0] == "query" and op[1] not in drv.ttn.nodes:
                    continue
                nedits += 1
            elif not replay and nedits < case["nedits"]:
                ever.update(drv.ttn.nodes)
                handed.clear()
                if case.get("exchange") and rng.random() < 0.3:
                    pending = gen_exchange()
                    if pending:
                        continue
                if retry and rng.random() < 0.35:
                    pending = gen_retry(snapshot(drv.ttn))
                    if pending:
                        continue
                op = gen_edit(rng, snapshot(drv.ttn), fresh, malformed=case["malformed"] and rng.random() < 0.4,
                              **({"queries": True} if case.get("queries") else {}), **({"balanced": 0.5} if large else {}), **allch)
                nedits += 1
            elif not replay and collapse[0]:
                pending = gen_collapse()
                continue
            else:
                break
            if len(applied) == build_len and tokens is None:
                tokens = {nid: [(nid, j) for j in range(nd.nopen_legs())] for nid, nd in drv.ttn.nodes.items()}
                try:
                    dense0 = dense_by_tokens(drv.ttn, tokens, big=True)
                except Exception as e:  # noqa
                    viol = viol or f"initial network not contractible: {e}"
            pre = snapshot(drv.ttn)
            valid = len(applied) < build_len or applicable(op, pre)
            pre_raws = {kk: np.array(v) for kk, v in drv.ttn._tensors.data.items()} if retry else None
            if op[0] == "query":
                # read-only look-ups on the live network: answers judged against the public state, and
                # the state (structure, stored arrays) must be untouched afterwards
                applied.append(op)
                self._opstats["query:" + op[2]] += 1
                if op[1] not in drv.ttn.nodes:
                    steps.append({"ok": False, "err": "no such node", "query": True})
                    continue
                if op[2] == "contract":
                    npend = sum(1 for nd in drv.ttn.nodes.values() if list(nd.leg_permutation) != list(range(len(nd.leg_permutation))))
                    self._opstats["query:contract " + ("one node" if len(drv.ttn.nodes) == 1 else "2+ nodes")
                                  + (", permutation pending" if npend else ", none pending")] += 1
                before = {kk: (id(v), np.array(v)) for kk, v in drv.ttn._tensors.data.items()}
                try:
                    w = run_query(drv.ttn, op)
                except Exception as e:  # noqa
                    w = f"{op} raised {type(e).__name__}: {e}"
                if w is None and snapshot(drv.ttn) != pre:
                    w = f"{op} changed the structure"
                if w is None:
                    for kk, v in drv.ttn._tensors.data.items():
                        if kk not in before or id(v) != before[kk][0] or not np.array_equal(v, before[kk][1]):
                            w = f"{op} changed the stored tensor of {kk}"
                            break
                if w and viol is None and len(applied) > build_len:
                    viol = f"after {len(applied) - build_len - 1} edit operations: {w}"
                steps.append({"ok": True, "err": None, "query": True})
                continue
            ok, err = drv.apply(op)
            applied.append(op)
            if ok and not valid and inapplicable is None and not case.get("malformed"):
                inapplicable = op          # outside the documented preconditions and yet accepted (never generated; the shrinker avoids it)
            if ok and tokens is not None:
                tokens = self._tokens_after(op, tokens, pre)
            flushed = []
            if retry and not ok:
                # the library REJECTED the call and the caller keeps using the same object: it must be as it was
                self._opstats["rejected-call:" + op[0] + ":" + str(err).split(":")[0]] += 1
                named = {x for x in op[1:] if isinstance(x, str)}
                try:
                    w, flushed = rejected_call_changes(pre, pre_raws, drv.ttn, named)
                    w = w or well_formed(drv.ttn)
                except Exception as e:  # noqa
                    w = f"the network cannot be inspected any more ({type(e).__name__}: {e})"
                if w is None and dense0 is not None and tokens is not None:
                    try:
                        d = dense_by_tokens(drv.ttn, tokens, big=True)
                        if d is not None and (d.shape != dense0.shape or not np.allclose(
                                d, dense0, rtol=1e-9, atol=1e-9 * max(1.0, float(np.max(np.abs(dense0))) if dense0.size else 1.0))):
                            w = "full contraction changed"
                    except Exception as e:  # noqa
                        w = f"contraction with the documented leg order failed: {e}"
                if flushed:
                    self._opstats["rejected-call carried out a pending permutation (= plain access)"] += 1
                if w:
                    if viol is None and len(applied) > build_len:
                        viol = f"after the REJECTED call {op} ({err}) the network is not as it was: {w}"
                    drv.ttn = drv.backup      # go on with the state before the call
                    flushed = []
            snap = snapshot(drv.ttn)
            raws = {kk: np.array(v) for kk, v in drv.ttn._tensors.data.items()}
            st = {"ok": ok, "err": err, "snap": snap, "raws": raws, "exact": drv.exact, "valid": valid}
            steps.append(st)
            # the model's side of this operation
            if op[0] == "contract_children":
                # modelled as the sequence of node contractions it is composed of: Contract(node, child1, new),
                # Contract(new, child2, new), ... (after the first one the node carries the new identifier); the
                # implementation is observed after the whole composite only
                nd = [x for x in pre["nodes"] if x[0] == op[1]]
                chs = list(nd[0][2]) if nd else []
                new = op[2] if op[2] is not None else op[1]
                if ok:
                    self._opstats[f"contract_children:{min(len(chs), 3)}{'+' if len(chs) >= 3 else ''} children:"
                                  + ("default id" if op[2] is None else "own id" if op[2] == op[1] else "fresh id")] += 1
                    cur_id = op[1]
                    for j, c in enumerate(chs):
                        mops.append(["contract", cur_id, c, new])
                        msteps.append(st if j == len(chs) - 1 else {"ok": True, "skip": True})
                        cur_id = new
                elif nd and chs:
                    # rejected although the node is there: the model's first contraction decides (tie on the verdict)
                    mops.append(["contract", op[1], chs[0], new])
                    msteps.append(st)
            elif flushed:
                # model: the rejected call leaves the store as it was (compared with the state BEFORE the call), then the
                # plain accesses the call has been seen to perform
                mops.append(op)
                msteps.append(dict(st, snap=pre, raws=pre_raws))
                for j, f in enumerate(flushed):
                    mops.append(["access", f])
                    msteps.append(dict(st, ok=True) if j == len(flushed) - 1 else {"ok": True, "skip": True})
            else:
                mops.append(op)
                msteps.append(st)
            self._opstats[op[0] + (":ok" if ok else ":rejected")] += 1
            if ok and op[0] == "split":
                nb = self._new_bond(op, snap)
                if nb is not None and nb > 100:
                    self._opstats["split:" + ("QR", "SVD", "replace")[op[6]] + " new bond " + (">256" if nb > 256 else "101..256")] += 1
            if ok and viol is None and len(applied) > build_len:
                w = well_formed(drv.ttn)
                if w:
                    viol = f"after {op}: {w}"
                elif dense0 is not None:
                    try:
                        d = dense_by_tokens(drv.ttn, tokens, big=True)
                        if d is not None:
                            if d.shape != dense0.shape:
                                viol = f"after {op}: open legs not where the documented rules place them (shape {d.shape} vs {dense0.shape})"
                            elif not np.allclose(d, dense0, rtol=1e-9, atol=1e-9 * max(1.0, float(np.max(np.abs(dense0))) if dense0.size else 1.0)):
                                viol = f"after {op}: full contraction changed (max diff {float(np.max(np.abs(d - dense0))):.3e})"
                    except Exception as e:  # noqa
                        viol = f"after {op}: contraction with the documented leg order failed: {e}"
        return {"ops": applied, "steps": steps, "atoms": drv.atoms, "viol": viol, "build_len": build_len, "inapplicable": inapplicable,
                "mops": mops, "msteps": msteps}

    @staticmethod
    def _new_bond(op, snap):
        """dimension of the bond a split created, read from the recorded shape of the new lower node"""
        oid = op[4] if op[4] is not None else "out_of_" + op[1]
        iid = op[5] if op[5] is not None else "in_of_" + op[1]
        nodes = {n[0]: n for n in snap["nodes"]}
        for a, b in ((oid, iid), (iid, oid)):
            if a in nodes and b in nodes and nodes[a][1] == b:
                return nodes[a][4][nodes[a][3][0]]
        return None

    @staticmethod
    def _tokens_after(op, tokens, pre):
        t = dict(tokens)
        k = op[0]
        if k == "contract":
            a, b, new = op[1], op[2], op[3] if op[3] is not None else op[1] + "contr" + op[2]
            ta, tb = t.pop(a), t.pop(b)
            t[new] = ta + tb
        elif k == "split":
            _, n, o, i, oid, iid = op[:6]
            oid = oid if oid is not None else "out_of_" + n
            iid = iid if iid is not None else "in_of_" + n
            nd = [x for x in pre["nodes"] if x[0] == n][0]
            nvirt = (nd[1] is not None) + len(nd[2])
            tn = t.pop(n)
            t[oid] = [tn[j - nvirt] for j in o["open"]]
            t[iid] = [tn[j - nvirt] for j in i["open"]]
        elif k == "contract_children":
            # documented: the children are contracted into the node one after the other (children-list order), each
            # contraction puts the open legs of its first operand (the node so far) before those of the child
            nd = [x for x in pre["nodes"] if x[0] == op[1]][0]
            if nd[2]:            # a leaf: nothing is contracted, the node keeps its identifier
                acc = t.pop(op[1])
                for c in nd[2]:
                    acc = acc + t.pop(c)
                t[op[2] if op[2] is not None else op[1]] = acc
        elif k == "insert_identity":
            t[op[3]] = []
        elif k == "rename":
            x = t.pop(op[2])
            t[op[1]] = x
        elif k in ("add_root", "add_child"):
            pass
        return t

    @staticmethod
    def _mops(ob):
        """the operations the Coq model runs: read-only queries are not state transitions"""
        if "mops" in ob:
            return ob["mops"]
        return [o for o in ob["ops"] if o[0] not in ("query", "contract_children")]

    def impl(self, ctx, cases):
        self._opstats = Counter()
        out = []
        for c in cases:
            try:
                out.append(self._run_case(c))
            except Exception as e:  # noqa
                import traceback
                out.append({"exception": f"{type(e).__name__}: {e}", "tb": traceback.format_exc()[-2000:], "ops": c.get("ops") or [], "steps": []})
        return out

    def model(self, ctx, cases, obs):
        exprs = []
        self._idmaps = []
        for ob in obs:
            idm = IdMap()
            self._idmaps.append(idm)
            exprs.append(wmodel.coq_run_obs(self._mops(ob), idm))
        vals = coq_eval(ctx, wmodel.IMPORTS, exprs, shard=12, scope="nat_scope", timeout=600)
        # instance obligations: the hypotheses of the universal theorems (C02_run_wfb_empty,
        # C02_step_preserves_wfb) hold for the explored sequence, and the executable invariant
        # wfb is true on every state from the first add_root on
        pre = []
        for ob, idm in zip(obs, self._idmaps):
            body = "[" + "; ".join("(" + wmodel.coq_op(o, idm) + ")" for o in self._mops(ob)) + "]"
            pre.append(f"(ops_okb empty_store {body}, map2b (run_wfb empty_store {body}) (run_wfsb empty_store {body}))")
        pvals = coq_eval(ctx, wmodel.IMPORTS.replace("TTN.Canon", "TTN.Canon TTN.Inv TTN.InvRun TTN.InvSem") + " Definition map2b (a b : list bool) := map (fun p => andb (fst p) (snd p)) (combine a b).", pre, shard=25, scope="nat_scope", timeout=600)
        self._inst = [0, 0, []]
        for case, ob, pv in zip(cases, obs, pvals):
            if isinstance(pv, BaseException):
                self._inst[0] += 1
                self._inst[2].append(f"seed {case['seed']}: cannot evaluate wfb: {pv}")
                continue
            okb, wl = pv
            accepted = [st["ok"] for st in ob["steps"] if not st.get("query")]
            self._inst[0] += 1
            if not all(wl[1:]) if len(wl) > 1 else False:
                self._inst[2].append(f"seed {case['seed']}: executable invariant wfb false on a reachable state {wl}")
            elif not okb and all(accepted) and not case.get("malformed"):
                self._inst[2].append(f"seed {case['seed']}: preconditions ops_okb of the preservation theorems not met by an accepted valid sequence")
            else:
                self._inst[1] += 1
        out = []
        for v, idm in zip(vals, self._idmaps):
            if isinstance(v, BaseException):
                out.append(v)
            else:
                out.append([(ok, wmodel.model_obs_to_py(o, idm)) for ok, o in v])
        return out

    def compare(self, case, ob, mo):
        if "exception" in ob:
            return f"harness/implementation exception: {ob['exception']}"
        msteps = ob["msteps"] if "msteps" in ob else [st for st in ob["steps"] if not st.get("query")]
        mops = self._mops(ob)
        if len(mo) != len(msteps):
            return "step count differs"
        for j, (st, (mok, mobs)) in enumerate(zip(msteps, mo)):
            op = mops[j]
            if st["ok"] != mok:
                return f"step {j} {op}: implementation {'accepted' if st['ok'] else 'rejected (' + str(st.get('err')) + ')'} but model {'accepted' if mok else 'rejected'}"
            if st.get("skip"):
                continue       # inside a composite operation: the implementation is observed after the whole composite
            d = wmodel.compare_snapshot(st["snap"], mobs)
            if d:
                return f"step {j} {op}: {d}"
            # values: every raw tensor equals the model diagram evaluated on the atoms
            for kk, raw in st["raws"].items():
                try:
                    val = wmodel.eval_diagram(mobs["tensors"][kk], mobs["atab"], ob["atoms"])
                except Exception as e:  # noqa
                    return f"step {j} {op}: cannot evaluate model diagram of {kk}: {e}"
                if val.shape != raw.shape:
                    return f"step {j} {op}: tensor {kk} shape impl {raw.shape} model {val.shape}"
                if st["exact"]:
                    if not np.array_equal(val, raw):
                        return f"step {j} {op}: tensor {kk} differs from the model diagram (exact integer comparison)"
                elif not np.allclose(val, raw, rtol=1e-8, atol=1e-8 * max(1.0, float(np.max(np.abs(raw))) if raw.size else 1.0)):
                    return f"step {j} {op}: tensor {kk} differs from the model diagram by {float(np.max(np.abs(val - raw))):.3e}"
        return None

    def oracle(self, case, ob):
        if "exception" in ob:
            return f"exception {ob['exception']}"
        if ob["viol"]:
            return ob["viol"]
        if not case.get("malformed"):
            # a documented-valid operation must not be rejected
            for op, st in zip(ob["ops"], ob["steps"]):
                if not st["ok"] and not st.get("query") and st.get("valid", True):
                    return f"valid operation {op} rejected: {st['err']}"
        return None

    def extra_obligations(self, ctx):
        n, ok, fails = getattr(self, "_inst", [0, 0, []])
        return n, ok, fails[:5]

    def sample_repr(self, case):
        return case

    def shrink(self, ctx, case, pred):
        """minimise the operation sequence: explicit ops, shortest failing prefix, then drop single edit ops"""
        ob = self._run_case(dict(case))
        ops = ob.get("ops")
        if not ops:
            return case
        base = {k: v for k, v in case.items() if k != "ops"}
        nb = ob.get("build_len", 0)

        kind0 = failure_kind(self.oracle(case, ob))

        def fails(o):
            # still failing in the same way, and every operation still documented-valid where it is applied
            try:
                c = dict(base, ops=o)
                ob2 = self._run_case(c)
                if ob2.get("inapplicable") is not None:
                    return False
                w = self.oracle(c, ob2)
                return bool(w) and failure_kind(w) == kind0 and pred(c)
            except Exception:
                return False
        cur = list(ops)
        if not fails(cur):
            return dict(base, ops=cur) if pred(dict(base, ops=cur)) else case
        lo = nb + 1
        for n in range(lo, len(cur) + 1):           # shortest failing prefix
            if fails(cur[:n]):
                cur = cur[:n]
                break
        i = nb
        while i < len(cur) - 1:                      # drop edit ops that are not needed
            cand = cur[:i] + cur[i + 1:]
            if fails(cand):
                cur = cand
            else:
                i += 1
        return dict(base, ops=cur)
