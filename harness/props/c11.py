"""C11 — tensor QR/SVD reproduce the tensor for every leg bipartition and mode."""
from __future__ import annotations

import contextlib
import itertools
import math
import traceback
from collections import Counter

import numpy as np

from lib import Prop, coq_eval, coq_nat, coq_list, unsome

MODES = ["FULL", "REDUCED", "KEEP"]
CMODES = ["UCONTR", "VCONTR", "EQUAL"]
IMPORTS = "From Coq Require Import List Arith. From PTN Require Import Index.Flat. Import ListNotations."
TOL = 1e-9


# ---------------------------------------------------------------------------------------
# helpers that do NOT use the code under test (and avoid np.transpose / np.reshape)
# ---------------------------------------------------------------------------------------
def box(shape):
    return itertools.product(*[range(d) for d in shape])


def code(shape, idx):
    """mixed-radix (row-major) code of a multi-index, by Horner's rule."""
    c = 0
    for d, i in zip(shape, idx):
        c = c * d + i
    return c


def enc_tensor(shape, dtype=np.int64):
    t = np.empty(tuple(shape), dtype=dtype)
    for idx in box(shape):
        t[idx] = code(shape, idx)
    return t


def entries(arr):
    """entries of an array in lexicographic order of the multi-index, read one by one."""
    return [arr[idx].item() for idx in box(arr.shape)]


def loop_transpose(t, legs):
    """expected[i_0..i_{n-1}] = t[o] with o[legs[j]] = i_j  (the documented leg order)."""
    shape = tuple(t.shape[a] for a in legs)
    out = np.empty(shape, dtype=t.dtype)
    n = len(legs)
    for idx in box(shape):
        o = [0] * n
        for j, a in enumerate(legs):
            o[a] = idx[j]
        out[idx] = t[tuple(o)]
    return out


def prod(xs):
    return math.prod(xs)


def make_tensor(case):
    """The numeric input tensor of a case (deterministic in the case)."""
    shape = tuple(case["shape"])
    nprs = np.random.RandomState(case["seed"])
    cplx = case["cplx"]
    kind = case["content"]

    def rnd(sh):
        a = nprs.standard_normal(sh)
        return a + 1j * nprs.standard_normal(sh) if cplx else a
    if "sexp" in case:
        # the same tensor up to an overall factor 10**sexp (badly scaled input; the represented object is unchanged)
        base = dict(case)
        del base["sexp"]
        return make_tensor(base) * (10.0 ** case["sexp"])
    if kind == "zero":
        return np.zeros(shape, dtype=complex if cplx else float)
    if kind == "ones":
        return np.ones(shape, dtype=complex if cplx else float)
    if kind == "int":
        a = nprs.randint(-2, 3, size=shape).astype(float)
        return a + 1j * nprs.randint(-2, 3, size=shape) if cplx else a
    if kind == "zeroslice":
        # a generic tensor with one or two exactly vanishing slices (product states, projected legs)
        out = rnd(shape)
        big = [a for a, d in enumerate(shape) if d >= 2]
        for _ in range(nprs.randint(1, 3)):
            if big:
                a = big[nprs.randint(len(big))]
                sl = [slice(None)] * len(shape)
                sl[a] = nprs.randint(shape[a])
                out[tuple(sl)] = 0
        return out
    if kind == "sparse":
        # a few non-vanishing entries (generalised diagonal / embedded Bell-like tensors), equal or generic weights
        out = np.zeros(shape, dtype=complex if cplx else float)
        equal = nprs.randint(2) == 0
        for _ in range(nprs.randint(1, 4)):
            idx = tuple(nprs.randint(d) for d in shape)
            out[idx] = 1 / math.sqrt(2) if equal else rnd(())
        return out
    if kind == "padded":
        # a generic block in the leading corner of an otherwise vanishing tensor (zero-padded / freshly enlarged legs)
        out = np.zeros(shape, dtype=complex if cplx else float)
        blk = tuple(nprs.randint(1, d + 1) for d in shape)
        out[tuple(slice(0, b) for b in blk)] = rnd(blk)
        return out
    if kind in ("lowrank", "degenerate"):
        ql, rl = case["ql"], case["rl"]
        dq = [shape[a] for a in ql]
        dr = [shape[a] for a in rl]
        m, n = prod(dq), prod(dr)
        r = max(1, min(case.get("rank", min(m, n) // 2), min(m, n)))
        if kind == "degenerate":
            # singular values in exactly degenerate groups (3,3,2,2,1,1,...): a bond cap has to cut through a group
            k = min(m, n)
            qa = np.linalg.qr(rnd((m, k)))[0]
            qb = np.linalg.qr(rnd((n, k)))[0]
            sv = np.array([float(3 - (j // 2) % 3) for j in range(k)])
            mat = (qa * sv) @ qb.conj().T
        else:
            mat = rnd((m, r)) @ rnd((r, n))
        tp = mat.reshape(tuple(dq + dr))
        out = np.empty(shape, dtype=tp.dtype)
        legs = ql + rl
        for idx in box(tp.shape):
            o = [0] * len(legs)
            for j, a in enumerate(legs):
                o[a] = idx[j]
            out[tuple(o)] = tp[idx]
        return out
    return rnd(shape)


LAYOUTS = ["C", "F", "revT", "perm", "strided", "neg", "readonly_F"]


def with_layout(arr, layout, seed=0):
    """A tensor with the SAME shape and entries as `arr` (a C-ordered array) but another memory layout.

    C: row-major (as generated); F: column-major, owning its data; revT: the full axis reversal view of a row-major array
    (column-major, not owning); perm: view of a row-major array by a random axis permutation (in general neither C nor F
    contiguous); strided: every second element of a larger buffer along every axis; neg: negative strides along every
    axis; readonly_F: column-major and not writeable.  The container is allocated with the wanted strides and filled by
    value assignment; the result is checked to be entrywise equal to `arr`."""
    arr = np.asarray(arr)
    n = arr.ndim
    if layout == "C" or layout is None or n == 0:
        return arr
    if layout in ("F", "readonly_F"):
        out = np.empty(arr.shape, dtype=arr.dtype, order="F")
    elif layout == "revT":
        out = np.empty(arr.shape[::-1], dtype=arr.dtype, order="C").T
    elif layout == "perm":
        perm = list(range(n))
        np.random.RandomState(seed).shuffle(perm)
        base = np.empty(tuple(arr.shape[a] for a in perm), dtype=arr.dtype, order="C")
        inv = [perm.index(a) for a in range(n)]
        out = base.transpose(inv)
    elif layout == "strided":
        base = np.zeros(tuple(2 * d + 1 for d in arr.shape), dtype=arr.dtype)
        out = base[tuple(slice(1, 2 * d + 1, 2) for d in arr.shape)]
    elif layout == "neg":
        base = np.empty(arr.shape, dtype=arr.dtype, order="C")
        out = base[tuple(slice(None, None, -1) for _ in arr.shape)]
    else:
        raise ValueError(layout)
    out[...] = arr
    if layout == "readonly_F":
        out.setflags(write=False)
    assert out.shape == arr.shape and out.dtype == arr.dtype and all(out[i] == arr[i] for i in box(arr.shape))
    return out


@contextlib.contextmanager
def spy(name, store):
    """Record the matrix handed to np.linalg.<name> (the kernel boundary)."""
    orig = getattr(np.linalg, name)

    def wrapped(a, *args, **kw):
        store.append(np.array(a))
        return orig(a, *args, **kw)
    setattr(np.linalg, name, wrapped)
    try:
        yield
    finally:
        setattr(np.linalg, name, orig)


def gram_last(q):
    nq = q.ndim - 1
    ax = list(range(nq))
    return np.tensordot(q.conj(), q, axes=(ax, ax))


def gram_first(v):
    ax = list(range(1, v.ndim))
    return np.tensordot(v, v.conj(), axes=(ax, ax))


def close(a, b, scale=1.0):
    a = np.asarray(a)
    b = np.asarray(b)
    return a.shape == b.shape and (a.size == 0 or float(np.max(np.abs(a - b))) <= TOL * max(1.0, scale))


def close_rel(a, b, scale):
    """entrywise |a-b| <= TOL * scale with NO floor at 1: for inputs whose overall scale is far from 1."""
    a = np.asarray(a)
    b = np.asarray(b)
    return a.shape == b.shape and (a.size == 0 or float(np.max(np.abs(a - b))) <= TOL * scale)


def _dec(x):
    """'inf' / '-inf' (JSON-able spellings) -> float."""
    return float(x) if isinstance(x, str) else x


def lossless_params(case):
    """keyword arguments of the SVDParameters object of the 'll' (nothing of weight may be discarded) run of a case."""
    par = case.get("lossless") or {"max_bond_dim": "inf", "rel_tol": 0.0, "total_tol": 0.0}
    return {k: _dec(v) for k, v in par.items() if k != "default_args"}


def exc_str(e):
    return f"{type(e).__name__}: {str(e)[:80]}"


# ---------------------------------------------------------------------------------------
# parameter-object histories (kind "phist", oracle only)
# ---------------------------------------------------------------------------------------
PFIELDS = ["max_bond_dim", "rel_tol", "total_tol", "renorm", "sum_trunc", "sum_renorm"]
PDEFAULTS = {"max_bond_dim": 100, "rel_tol": 1e-15, "total_tol": 1e-15, "renorm": False, "sum_trunc": False, "sum_renorm": True}
PCLASSES = ["SVDParameters", "BUGConfig", "TruncationSettings"]
_PCLS = {}


def param_classes():
    """name -> class of the parameter objects of the histories: SVDParameters itself, every subclass the LIBRARY defines
    (BUGConfig, the configuration object the BUG time evolution hands to the truncation, and whatever else is found), and a
    plain dataclass subclass as a caller would write it (one more field, everything else inherited)."""
    if _PCLS:
        return _PCLS
    import dataclasses
    import importlib
    from pytreenet.util.tensor_splitting import SVDParameters
    for mod in ("pytreenet", "pytreenet.time_evolution.bug", "pytreenet.time_evolution"):
        try:
            importlib.import_module(mod)
        except Exception:  # noqa
            pass
    _PCLS["SVDParameters"] = SVDParameters
    todo = list(SVDParameters.__subclasses__())
    while todo:
        c = todo.pop()
        if str(getattr(c, "__module__", "")).startswith("pytreenet") and c.__name__ not in _PCLS:
            _PCLS[c.__name__] = c
            todo += list(c.__subclasses__())
    cls = dataclasses.make_dataclass("TruncationSettings", [("label", str, "harness")], bases=(SVDParameters, ))
    cls.__module__ = __name__
    cls.__qualname__ = "TruncationSettings"
    globals()["TruncationSettings"] = cls          # (pickle looks the class up by module and name)
    _PCLS["TruncationSettings"] = cls
    return _PCLS


def phist_values(case):
    """Replay of a parameter-object history WITHOUT the library: the parameter VALUES in effect at every step (what the
    caller wrote into the object he is holding at that moment), one entry per step (None for steps that are not uses)."""
    vals = dict(PDEFAULTS)
    vals.update({k: _dec(v) for k, v in case["init"].items()})
    out = []
    for st in case["steps"]:
        if st[0] == "set":
            vals[st[1]] = _dec(st[2])
            out.append(None)
        elif st[0] == "clone":
            if st[1] == "replace":
                vals.update({k: _dec(v) for k, v in st[2].items()})
            out.append(None)
        elif st[0] == "use":
            out.append(dict(vals))
        else:                     # rejected construction / rejected call: nothing changes
            out.append(None)
    return out


def rule_counts(sref, v):
    """(lo, hi): the numbers of kept singular values compatible with the documented rule for the parameter values v; a
    singular value / tail weight within 1e-6 relative of the cutoff, or at the level of the rounding noise of the SVD
    (1e-12 of the largest), may fall on either side."""
    k = len(sref)
    cap = k if v["max_bond_dim"] == float("inf") else min(int(v["max_bond_dim"]), k)
    s0 = float(sref[0])
    if v["sum_trunc"]:
        total = float(np.sum(sref ** 2))
        tot2 = float("inf") if math.isinf(v["total_tol"]) else v["total_tol"] ** 2
        noise = 1e-24 * (1.0 if (v["sum_renorm"] and total != 0) else max(total, 1e-300))
        most = least = 0
        for d in range(k + 1):
            w = float(np.sum(sref[k - d:] ** 2))
            if v["sum_renorm"] and total != 0:
                w = w / total
            if w <= tot2 * (1 + 1e-6) + noise:
                most = d
            if w <= tot2 * (1 - 1e-6) - noise or d == 0:
                least = d
        lo, hi = k - most, k - least
    else:
        a = v["rel_tol"] * s0 if (s0 > 0 or math.isfinite(v["rel_tol"])) else float("-inf")
        cut = max(a, v["total_tol"])
        if cut == float("-inf"):
            lo = hi = k
        elif cut == float("inf"):
            lo = hi = 0
        else:
            eps = 1e-6 * abs(cut) + 1e-12 * s0
            lo, hi = int(np.sum(sref > cut + eps)), int(np.sum(sref > cut - eps))
    return max(1, min(lo, cap)), max(1, min(hi, cap))


class C11(Prop):
    id = "C11"
    title = "tensor QR/SVD for every bipartition and mode"
    design_ref = "DESIGN.md section 5 / C11"
    rule = ("a case = (shape, ordered leg bipartition (q_legs, r_legs), entry kind, dtype, truncation parameters, leg container type, memory "
            "layout of the input array); layouts: row-major (half of the cases), column-major (owning / full axis reversal view / read-only), "
            "axis-permuted view, strided view of a larger buffer, negative strides -- same shape and entries, the index-encoding tensors of the "
            "tie are laid out the same way; every bipartition with the legs in natural or fully reversed order (the pure-regrouping paths) is "
            "run with EVERY layout (quick: one shape each of order 2, 3; thorough: all fixed shapes of order 2..5) and a quarter of the sampled "
            "bipartitions keep the natural leg order; "
            "orders 0..6, dimensions 1..5 (large members: see below), all (n+1)! ordered bipartitions for every order <= 4 (quick: one shape at order 4; thorough: three, plus all 720 of one order-5 shape), sampled for orders 5, 6; a malformed "
            "stream (duplicate / missing / out-of-range legs) that both sides must reject. Entry kinds: generic, low rank, exactly degenerate "
            "spectrum, small integers, constant, zero, vanishing slices, few non-vanishing entries (equal or generic weights), zero-padded "
            "block. Every case runs the truncated splitting (truncated_tensor_svd and the three contraction modes) three times: truncation "
            "disabled (-inf tolerances), truncating parameters, and LOSSLESS parameters = any parameter object that by the documented rule "
            "can discard only vanishing weight (value criterion with rel_tol / total_tol in {exactly 0, -inf, 1e-15, 1e-13 of the tensor's "
            "scale}, sum criterion relative or absolute with total_tol in {0, 1e-15, 1e-12 resp. 1e-13 of the scale}, renorm on/off, "
            "max_bond_dim infinite / 10^6 / 100 / exactly the full bond dimension, or the library's default parameter object via the default "
            "arguments of contr_truncated_svd_splitting): the factors must contract back to the tensor up to the weight the rule allows to "
            "discard (computed from the parameters and an own SVD). Badly scaled family: the same tensors times 10**sexp, sexp integer in "
            "-12..12 (half), in -100..100 (quarter), real in -30..30 (quarter) (squares of the entries stay representable), judged with "
            "purely relative tolerances (1e-9 * largest entry, Gram matrices by the power of the scale they carry), sum criterion in 60% of "
            "them; exact-zero family: tensors with exactly vanishing singular values with both tolerances exactly 0 / -inf (an exact tie of "
            "the smallest singular value with the cutoff), at scale 1 and at powers of ten; both families prefer matricisations with >= 2 "
            "singular values. LARGE members (quick: 9 per run, thorough: 150): orders 2..6 with 512..4608 entries (70% of them >= 2048; a fifth of "
            "the thorough ones up to 8192), dimensions up to 96 (order 2: up to 1536), longer side of the matricisation <= 1536; every third "
            "one combines >= 2048 entries AND a strongly rectangular matricisation (aspect ratio >= 16, short side >= 2; tall or wide) AND "
            "rank-deficient entries (low rank with a random rank 1..k-1, zero-padded, vanishing slices, sparse, small integers, constant), the "
            "others draw the three attributes independently (half rectangular, half rank deficient); any layout / dtype / leg order, all "
            "entry points, the truncation-off run now also checks S descending and U, Vh isometries; their model tie is dealt round-robin "
            "over the parallel shards. PARAMETER-OBJECT HISTORIES (kind phist, oracle only; quick 150, thorough 3000): ONE parameter "
            "object -- SVDParameters, every subclass the library defines (BUGConfig, found by walking SVDParameters.__subclasses__()), or a "
            "caller's plain dataclass subclass; built with explicit values or with the defaults and fields assigned afterwards -- is used for "
            "2..8 truncated splittings (truncated_tensor_svd + one contraction mode each; tensors of order 2..4, short side >= 3, generic / low "
            "rank / degenerate / integer entries, any layout and leg container); between the uses its fields are re-assigned (max_bond_dim "
            "raised, lowered, lifted to inf; tolerances; renorm, sum_trunc, sum_renorm), the used object is replaced by copy.copy / deepcopy / "
            "a pickle round trip / dataclasses.replace (with or without a changed field), a construction with invalid values or a call with "
            "malformed legs is rejected (the caller's object must be unchanged) and the caller carries on; every use is judged with the VALUES "
            "the object holds at that moment (replayed without the library): number of kept singular values within the documented rule "
            "(own SVD; cutoff ties and rounding noise leave a range), shapes, leading singular values, isometries, Eckart-Young error of "
            "U S Vh and of the contracted factors (so: contract back to the tensor when nothing may be discarded), no exception. "
            "non-trivial = order >= 2 and size >= 2 (phist: at least two uses); distinct by case content")
    clauses = [
        ("F", "row-major flatten/unflatten are inverse on the index box of any shape; the lexicographic box enumeration maps onto "
              "0..size-1 (C11_flatten_unflatten, C11_unflatten_flatten, C11_flatten_bijection)"),
        ("F", "np.transpose index map by first_legs++last_legs: accepted leg lists = permutations, original axis perm[j] carries component j, "
              "bijection of index boxes (C11_legs_ok_permutation, C11_transpose_index_map, C11_transpose_by_leg_list)"),
        ("F", "matricisation entry (r,c) = tensor entry at the scatter of unflatten(r) ++ unflatten(c), any ordered bipartition incl. empty sides "
              "(C11_matricize_entry, C11_matricize_rejects)"),
        ("F", "factor shapes per mode: Q dims(q)++[k], R [k]++dims(r), k = m FULL / min REDUCED / n KEEP (KEEP with empty r side rejected); "
              "KEEP + single leg: Q has the (reordered) input shape; SVD shapes FULL/KEEP vs REDUCED (C11_qr_shapes, C11_tensor_qr_shapes, "
              "C11_qr_keep_single_leg, C11_svd_shapes, C11_qr_rejects)"),
        ("O", "under the kernel contract Q R = A: tensordot(Q,R) = input transposed to q_legs++r_legs in every mode; KEEP zero padding keeps the "
              "product (C11_keep_padding, C11_factors_contract, C11_qr_reconstruct); contract satisfiable (C11_contract_satisfiable)"),
        ("O", "under the kernel contract U[:, :p] diag(s) Vh[:p] = A: (u[..., :p]*s).vh[:p] = transposed input; truncation slices the same p' "
              "leading columns/rows and gives the truncated product (C11_svd_reconstruct, C11_truncated_product)"),
        ("O", "UCONTR/VCONTR/EQUAL factors have the prescribed shapes and contract to U diag(s) Vh, contract sqrt(s)*sqrt(s)=s (C11_contr_modes)"),
        ("O", "orthonormal kernel factors => Q, U isometries over the kept legs, Vh over the trailing legs; KEEP: Gram = diag(1_k, 0) "
              "(C11_qr_isometry, C11_svd_isometry)"),
        ("V", "kernel contracts themselves (LAPACK QR/SVD: product, orthonormality, s >= 0 descending, shapes per numpy mode) and the float "
              "truncation rule: validated numerically on every case against an independent reference (tolerance 1e-9 * max(1,|t|); 1e-9 * |t| for "
              "the badly scaled family); lossless truncation parameters (tolerances 0 / -inf / defaults / tiny, either criterion, any scale "
              "1e-100..1e100) reproduce the tensor in all contraction modes"),
        ("V", "parameter-object histories (kind phist, oracle only, no model tie): the truncated splitting obeys the parameter VALUES currently "
              "in the caller's object -- after fields were re-assigned between uses (both directions, incl. max_bond_dim = inf), for "
              "library-defined subclasses of SVDParameters (BUGConfig) and a caller's subclass, for copies / deepcopies / pickles / "
              "dataclasses.replace of used objects, and after rejected constructions / calls: kept count by the documented rule, factors "
              "contract to the optimal truncation (to the tensor when nothing may be discarded), isometries, a use never changes the object: "
              "runtime check against own SVD"),
    ]
    trusted_base = [
        "kernel contracts (hypotheses of the O theorems, validated numerically each run): np.linalg.qr returns (Q,R) with QR=A, Q^H Q=1, shapes "
        "(m,k),(k,n) with k=m for 'complete' and min(m,n) for 'reduced'; np.linalg.svd returns U,s,Vh with U[:, :p] diag(s) Vh[:p]=A, "
        "orthonormal columns/rows, shapes per full_matrices; np.sqrt(s)^2=s; truncate_singular_values returns 1 <= p' <= len(s) values",
        "numpy index semantics of np.transpose / np.reshape (C order) / np.pad / np.tensordot(axes=(-1,0)) / np.diag / basic slicing are modelled "
        "by their index maps; tied exactly on index-encoding tensors (transpose, reshape) and by shapes + numeric round trip (pad, tensordot)",
        "entries live in an arbitrary commutative ring in the theorems; floating point rounding is outside the model",
    ]
    assumptions = ["leg indices are non-negative ints (the documented domain); negative axes, which numpy would accept, are outside the model",
                   "KEEP with an empty second side is outside the property's quantifier (the code raises TypeError; the model returns None)"]

    # ---------------------------------------------------------------------------------
    CONTENTS = ["normal", "normal", "normal", "lowrank", "lowrank", "int", "zero", "ones", "degenerate", "degenerate",
                "zeroslice", "zeroslice", "sparse", "padded"]

    @staticmethod
    def _lossless(rng, shape, ql, rl, sexp, bias=None):
        """Parameters of the 'll' run: by the documented rule they allow only (numerically) vanishing weight to be discarded --
        tolerances exactly 0, -inf, the defaults, or tiny relative to the scale of the tensor; bond cap infinite, huge or exactly
        the full bond dimension; value criterion or sum criterion (relative / absolute), with or without renormalisation."""
        k = max(1, min(prod([shape[a] for a in ql if a < len(shape)]), prod([shape[a] for a in rl if a < len(shape)])))
        unit = 1.0 if sexp is None else 10.0 ** sexp
        if sexp is None and k <= 100 and rng.random() < 0.12:
            # the library's own default parameter object / default arguments
            return {"default_args": True}
        par = {"max_bond_dim": rng.choice(["inf", "inf", 10 ** 6, 100 if k <= 100 else "inf", k]),
               "renorm": rng.random() < 0.25}
        if bias == "zero":
            # both tolerances switched off exactly: only singular values that are exactly 0 (or nothing) may go
            par["sum_trunc"] = False
            par["sum_renorm"] = rng.random() < 0.5
            par["rel_tol"], par["total_tol"] = rng.choice([(0.0, 0.0), (0.0, 0.0), (0.0, "-inf"), ("-inf", 0.0)])
        elif rng.random() < (0.6 if bias == "sum" else 0.4):
            par["sum_trunc"] = True
            par["sum_renorm"] = rng.random() < 0.6
            par["rel_tol"] = rng.choice([0.0, 1e-15, "-inf"])       # not used by the sum criterion
            par["total_tol"] = rng.choice([0.0, 1e-15, 1e-12]) if par["sum_renorm"] else rng.choice([0.0, 1e-15, 1e-13]) * unit
        else:
            par["sum_trunc"] = False
            par["sum_renorm"] = rng.random() < 0.5                   # not used by the value criterion
            par["rel_tol"] = rng.choice([0.0, 0.0, 1e-15, 1e-13, "-inf"])
            tot = rng.choice([0.0, 0.0, "-inf", 1e-15, 1e-13])
            par["total_tol"] = tot if isinstance(tot, str) else tot * unit
        return par

    def _mk(self, rng, shape, ql, rl, content=None, layout=None, sexp=None, bias=None, rank=None):
        n = len(shape)
        if content is None:
            content = rng.choice(self.CONTENTS)
        unit = 1.0 if sexp is None else 10.0 ** sexp
        case = {"kind": "split", "shape": list(shape), "ql": list(ql), "rl": list(rl),
                "content": content, "cplx": rng.random() < 0.6, "seed": rng.randrange(10 ** 6),
                "as_list": rng.random() < 0.4,
                "layout": layout if layout is not None else rng.choice(["C"] * 5 + LAYOUTS),
                "trunc": {"max_bond_dim": rng.choice([1, 2, 3, 100]), "rel_tol": rng.choice([1e-12, 0.05, 0.3]),
                          "total_tol": rng.choice([1e-12, 0.2, 1.0]) * unit},
                "lossless": self._lossless(rng, shape, ql, rl, sexp, bias)}
        if sexp is not None:
            case["sexp"] = sexp
        if rank is not None:
            case["rank"] = rank
        return case

    # -- LARGE members: tensors with 512..4608 (thorough: ..8192) entries, orders 2..6, dimensions up to 1536
    LARGE_FALLBACK = {2: [256, 9], 3: [16, 16, 9], 4: [16, 16, 3, 3], 5: [4, 4, 16, 3, 3], 6: [4, 4, 4, 4, 3, 3]}
    DEFICIENT = ["lowrank", "lowrank", "lowrank", "lowrank", "padded", "zeroslice", "sparse", "int", "ones"]

    def _large_shape(self, rng, n, lo, hi):
        for _ in range(200):
            target = math.exp(rng.uniform(math.log(lo), math.log(hi)))
            if n == 2:
                sh = [rng.choice([2, 3, 4, 5, 6, 8, 9, 12, 16, 24, 32, 48, 64])]
            else:
                pool = {3: [1, 2, 3, 4, 6, 8, 12, 16, 24], 4: [1, 2, 3, 4, 5, 6, 8, 9, 12], 5: [1, 2, 2, 3, 4, 5, 6, 8],
                        6: [1, 2, 2, 3, 3, 4, 5, 6]}[n]
                sh = [rng.choice(pool) for _ in range(n - 1)]
            last = max(1, round(target / prod(sh)))
            sh.insert(rng.randrange(n), last)
            if lo <= prod(sh) <= hi and max(sh) <= (1536 if n == 2 else 96):
                return sh
        sh = list(self.LARGE_FALLBACK[n])
        rng.shuffle(sh)
        return sh

    def _large_case(self, rng, forced, hi):
        """One large member.  forced: tensor with >= 2048 entries AND strongly rectangular matricisation (aspect ratio >= 16, short
        side >= 2) AND a rank-deficient entry kind (the truncation-off run, the lossless run and the truncating run are made for every
        case anyway); otherwise the three attributes are drawn independently."""
        n = rng.choice([2, 3, 4, 4, 5, 5, 6, 6])
        big = forced or rng.random() < 0.7
        want_rect = forced or rng.random() < 0.5
        sh = self._large_shape(rng, n, 2048 if big else 512, hi if big else 2047)
        best = None
        for _ in range(60):
            legs = list(range(n))
            if rng.random() >= 0.25:
                rng.shuffle(legs)
            k = rng.randrange(n + 1)
            ql, rl = legs[:k], legs[k:]
            m, nn = prod([sh[a] for a in ql]), prod([sh[a] for a in rl])
            if max(m, nn) > 1536:
                continue              # (a FULL-mode factor would have > 1536**2 entries: too slow for a check)
            rect = min(m, nn) >= 2 and max(m, nn) >= 16 * min(m, nn)
            if best is None:
                best = (ql, rl)
            if rect == want_rect:
                best = (ql, rl)
                break
        if best is None:
            # every sampled bipartition has a side longer than 1536: split a middle cut of the natural order
            k = min(range(n + 1), key=lambda j: abs(math.log(prod(sh[:j])) - math.log(prod(sh[j:]))))
            best = (list(range(k)), list(range(k, n)))
        ql, rl = best
        kk = min(prod([sh[a] for a in ql]), prod([sh[a] for a in rl]))
        content = rng.choice(self.DEFICIENT) if forced or rng.random() < 0.5 else None
        rank = rng.randint(1, max(1, kk - 1)) if rng.random() < 0.7 else None
        case = self._mk(rng, sh, ql, rl, content=content, rank=rank,
                        bias=rng.choice([None, None, "zero", "sum"]))
        case["large"] = True
        return case

    @staticmethod
    def _all_bipartitions(n):
        for perm in itertools.permutations(range(n)):
            for k in range(n + 1):
                yield list(perm[:k]), list(perm[k:])

    def _rand_bip(self, rng, n):
        legs = list(range(n))
        if rng.random() >= 0.25:      # a quarter of the sampled bipartitions keep the legs in natural order
            rng.shuffle(legs)
        k = rng.choice([0, n] + list(range(n + 1)) * 3) if n else 0
        return legs[:k], legs[k:]

    # -- parameter-object histories (kind "phist") ------------------------------------------------------------------
    @staticmethod
    def _pvalue(rng, field):
        if field == "max_bond_dim":
            return rng.choice([1, 2, 2, 3, 4, 6, 100, "inf", "inf"])
        if field == "rel_tol":
            return rng.choice(["-inf", "-inf", 0.0, 1e-15, 1e-12, 0.05, 0.3])
        if field == "total_tol":
            return rng.choice(["-inf", "-inf", 0.0, 1e-15, 1e-12, 0.2, 1.0])
        return rng.random() < {"renorm": 0.15, "sum_trunc": 0.25, "sum_renorm": 0.5}[field]

    def _puse(self, rng, cplx):
        for _ in range(10):
            n = rng.choice([2, 2, 3, 3, 4])
            sh = [rng.choice([2, 3, 4, 5, 6]) for _ in range(n)]
            while prod(sh) > 400:
                sh[rng.randrange(n)] = 2
            legs = list(range(n))
            if rng.random() >= 0.25:
                rng.shuffle(legs)
            k = rng.randrange(1, n)
            ql, rl = legs[:k], legs[k:]
            if min(prod([sh[a] for a in ql]), prod([sh[a] for a in rl])) >= 3:
                break
        return ["use", {"shape": sh, "ql": ql, "rl": rl, "content": rng.choice(["normal", "normal", "normal", "lowrank", "degenerate", "int"]),
                        "seed": rng.randrange(10 ** 6), "cplx": cplx, "cm": rng.choice(CMODES), "as_list": rng.random() < 0.4,
                        "layout": rng.choice(["C"] * 5 + LAYOUTS)}]

    def _gen_phist(self, rng, classes):
        """ONE parameter object (SVDParameters, a subclass the library defines, or a caller's dataclass subclass) used for several
        truncated splittings; between the uses its fields are re-assigned (bond limit raised / lowered / lifted to inf, tolerances and
        switches changed), it is copied / deep-copied / pickled / dataclasses.replace()d and the copy is used on, a construction with
        invalid values or a call with malformed legs is rejected and the caller carries on with the object."""
        cplx = rng.random() < 0.6
        init = {} if rng.random() < 0.3 else {f: self._pvalue(rng, f) for f in PFIELDS}
        steps = []

        def a_set():
            f = "max_bond_dim" if rng.random() < 0.6 else rng.choice(PFIELDS[1:])
            return ["set", f, self._pvalue(rng, f)]
        if not init or rng.random() < 0.25:
            for _ in range(rng.choice([1, 2, 3])):
                steps.append(a_set())          # assigned before the first use
        nseg = rng.choice([2, 2, 3, 4])
        for seg in range(nseg):
            for _ in range(rng.choice([1, 1, 2])):
                steps.append(self._puse(rng, cplx))
            if seg == nseg - 1:
                break
            for _ in range(rng.choice([1, 1, 2])):
                r = rng.random()
                if r < 0.55:
                    steps.append(a_set())
                elif r < 0.8:
                    how = rng.choice(["copy", "deepcopy", "pickle", "replace"])
                    ch = {}
                    if how == "replace" and rng.random() < 0.6:
                        f = rng.choice(PFIELDS)
                        ch[f] = self._pvalue(rng, f)
                    steps.append(["clone", how, ch])
                elif r < 0.9:
                    steps.append(["reject", rng.choice([{"max_bond_dim": 0}, {"max_bond_dim": -3}, {"max_bond_dim": 2.5}, {"rel_tol": -0.5},
                                                         {"total_tol": -1e-3}, {"max_bond_dim": "-inf"}])])
                else:
                    u = self._puse(rng, cplx)[1]
                    u["ql"] = u["ql"] + [u["ql"][0]] if rng.random() < 0.5 else u["ql"][1:] + [len(u["shape"]) + 1]
                    steps.append(["baduse", u])
        return {"kind": "phist", "cls": rng.choice(classes), "init": init, "steps": steps}

    def generate(self, ctx, stream, budget_scale=1):
        rng = ctx.rng(stream)
        th = ctx.thorough()
        cases = []
        main = stream == "main"
        # fixed shapes with pairwise distinct dimensions (a permutation error changes the shape) and dimension-1 legs
        fixed = {0: [[]], 1: [[3], [1]], 2: [[2, 3], [1, 4], [3, 1]], 3: [[2, 3, 4], [1, 3, 2], [2, 1, 1]],
                 4: [[2, 3, 4, 5], [2, 1, 3, 2], [1, 2, 1, 3]], 5: [[2, 3, 1, 2, 3], [2, 2, 2, 3, 1]], 6: [[2, 1, 2, 3, 2, 2], [2, 2, 2, 2, 2, 2]]}
        if main:
            for n in range(0, 6 if th else 5):
                shapes = fixed[n][:1] if n == 5 else fixed[n] if (th or n < 3) else fixed[n][:2] if n == 3 else fixed[n][:1]
                for sh in shapes:
                    for ql, rl in self._all_bipartitions(n):
                        cases.append(self._mk(rng, sh, ql, rl))
                        if n >= 2 and (th or (n <= 3 and sh == fixed[n][0])) and (ql + rl == sorted(ql + rl) or ql + rl == sorted(ql + rl, reverse=True)):
                            # legs already grouped in natural (or fully reversed) order: the matricisation is then a pure
                            # regrouping of the memory for a row-major (column-major) tensor -- every memory layout
                            for lay in LAYOUTS[1:]:
                                cases.append(self._mk(rng, sh, ql, rl, content="normal", layout=lay))
        nsample = {4: ctx.scale(20, 200), 5: ctx.scale(30, 400), 6: ctx.scale(10, 300)}
        for n, cnt in nsample.items():
            for _ in range(cnt * budget_scale):
                sh = rng.choice(fixed[n])
                if rng.random() < 0.5:
                    sh = [rng.choice([1, 2, 2, 3]) for _ in range(n)] if n < 6 else [rng.choice([1, 2, 2]) for _ in range(n)]
                ql, rl = self._rand_bip(rng, n)
                cases.append(self._mk(rng, sh, ql, rl))
        # random shapes: wide / tall / square matricisations, larger dimensions
        for _ in range(ctx.scale(80, 2000) * budget_scale):
            n = rng.choice([1, 2, 2, 3, 3, 3, 4, 4])
            sh = [rng.choice([1, 2, 3, 4, 5]) for _ in range(n)]
            while prod(sh) > 400:
                sh[rng.randrange(n)] = 1
            ql, rl = self._rand_bip(rng, n)
            cases.append(self._mk(rng, sh, ql, rl))
        # numerical robustness: the same kinds of tensors multiplied by 10**sexp, sexp spread over many orders of magnitude
        # (tiny- and huge-norm inputs; squares of the entries stay representable), all tolerances of the oracle relative
        def robust_shape():
            # mostly matricisations with at least two singular values (a wrong bond dimension then shows in the product)
            for attempt in range(6):
                n = rng.choice([1, 2, 2, 3, 3, 3, 4, 4])
                sh = [rng.choice([1, 2, 3, 4, 5]) for _ in range(n)]
                while prod(sh) > 400:
                    sh[rng.randrange(n)] = 1
                ql, rl = self._rand_bip(rng, n)
                if min(prod([sh[a] for a in ql]), prod([sh[a] for a in rl])) >= 2 or (attempt == 0 and rng.random() < 0.15):
                    break
            return sh, ql, rl
        for _ in range(ctx.scale(50, 1500) * budget_scale):
            sh, ql, rl = robust_shape()
            sexp = rng.choice([rng.randint(-12, 12), rng.randint(-12, 12), rng.randint(-100, 100), round(rng.uniform(-30, 30), 3)])
            cases.append(self._mk(rng, sh, ql, rl, sexp=sexp, bias="sum"))
        # exact zeros and exact ties with the cutoff: tensors with exactly vanishing singular values (vanishing slices, few
        # non-vanishing entries, zero-padded blocks, small integers, constant) with both tolerances exactly 0 (or -inf), at
        # scale 1 and at a power of ten
        for _ in range(ctx.scale(40, 1200) * budget_scale):
            sh, ql, rl = robust_shape()
            sexp = rng.choice([None, None, rng.randint(-12, 12), rng.randint(-100, 100)])
            cases.append(self._mk(rng, sh, ql, rl, content=rng.choice(["zeroslice", "zeroslice", "sparse", "padded", "padded", "int", "ones"]),
                                  sexp=sexp, bias="zero"))
        # LARGE members (size gates): tensors with 512..4608 entries (thorough: up to 8192), every third one with the combination
        # >= 2048 entries + strongly rectangular matricisation + rank-deficient entries
        nlarge = ctx.scale(9, 150) * budget_scale
        for i in range(nlarge):
            cases.append(self._large_case(rng, forced=(i % 3 == 0), hi=8192 if (th and i % 5 == 4) else 4608))
        # malformed leg lists: both sides must reject
        for _ in range(ctx.scale(20, 120) * budget_scale):
            n = rng.choice([1, 2, 3, 4])
            sh = [rng.choice([1, 2, 3]) for _ in range(n)]
            ql, rl = self._rand_bip(rng, n)
            legs = ql + rl
            how = rng.choice(["dup", "missing", "range", "extra"])
            if how == "dup" and n >= 2:
                legs[rng.randrange(n)] = legs[(rng.randrange(n - 1) + 1) % n]
                if len(set(legs)) == n:
                    legs[0] = legs[-1]
            elif how == "missing":
                legs.pop(rng.randrange(n))
            elif how == "range":
                legs[rng.randrange(n)] = n + rng.randrange(3)
            else:
                legs.insert(rng.randrange(n + 1), rng.randrange(n + 2))
            k = rng.randrange(len(legs) + 1)
            c = self._mk(rng, sh, legs[:k], legs[k:], content="normal")
            c["kind"] = "malformed"
            c["how"] = how
            cases.append(c)
        # parameter-object histories (oracle only): one object, several uses, fields re-assigned / object copied in between
        classes = PCLASSES + sorted(k for k in param_classes() if k not in PCLASSES)
        for _ in range(ctx.scale(150, 3000) * budget_scale):
            cases.append(self._gen_phist(rng, classes))
        return cases

    def nontrivial(self, case):
        if case["kind"] == "phist":
            return sum(1 for st in case["steps"] if st[0] == "use") >= 2
        return case["kind"] == "split" and len(case["shape"]) >= 2 and prod(case["shape"]) >= 2

    def distribution(self, cases):
        c = Counter()
        for x in cases:
            c["kind:" + x["kind"]] += 1
            if x["kind"] == "phist":
                c["phist:class=" + x["cls"]] += 1
                c["phist:uses"] += sum(1 for st in x["steps"] if st[0] == "use")
                vs = [v for v in phist_values(x) if v is not None]
                for a, b in zip(vs, vs[1:]):
                    if a["max_bond_dim"] != b["max_bond_dim"]:
                        c["phist:consecutive uses with max_bond_dim " + ("raised" if b["max_bond_dim"] > a["max_bond_dim"] else "lowered")
                          + (" to inf" if b["max_bond_dim"] == float("inf") else "")] += 1
                    elif a != b:
                        c["phist:consecutive uses with another field changed"] += 1
                for st in x["steps"]:
                    if st[0] == "clone":
                        c["phist:" + st[1] + " of a used object"] += 1
                    elif st[0] in ("reject", "baduse"):
                        c["phist:rejected " + ("construction" if st[0] == "reject" else "call (malformed legs)") + ", caller carries on"] += 1
                if any(v["max_bond_dim"] == float("inf") for v in vs):
                    c["phist:some use with max_bond_dim=inf"] += 1
                if not x["init"]:
                    c["phist:constructed with defaults, fields assigned afterwards"] += 1
                continue
            if x["kind"] != "split":
                continue
            sh = x["shape"]
            c[f"order:{len(sh)}"] += 1
            c["content:" + x["content"]] += 1
            c["dtype:" + ("complex" if x["cplx"] else "real")] += 1
            m = prod([sh[a] for a in x["ql"]])
            n = prod([sh[a] for a in x["rl"]])
            c["matricisation:" + ("wide" if m < n else "tall" if m > n else "square")] += 1
            if not x["ql"]:
                c["empty:q_side"] += 1
            if not x["rl"]:
                c["empty:r_side"] += 1
            if 1 in sh:
                c["has_dimension_1_leg"] += 1
            if x["ql"] + x["rl"] != sorted(x["ql"] + x["rl"]):
                c["legs_permuted"] += 1
            c["legs_as:" + ("list" if x["as_list"] else "tuple")] += 1
            c["layout:" + x.get("layout", "C")] += 1
            if x["ql"] + x["rl"] == sorted(x["ql"] + x["rl"]) and len(sh) >= 2:
                c["legs_natural_order:" + ("row_major" if x.get("layout", "C") == "C" else "other_layout")] += 1
            if x.get("large"):
                c["large:members"] += 1
                c["large:size_" + ("512..2047" if prod(sh) < 2048 else "2048..4608" if prod(sh) <= 4608 else "4609..8192")] += 1
                rect = min(m, n) >= 2 and max(m, n) >= 16 * min(m, n)
                if rect:
                    c["large:aspect_ratio_ge_16"] += 1
                deficient = x["content"] in ("lowrank", "padded", "zeroslice", "sparse", "int", "ones", "zero")
                if deficient:
                    c["large:rank_deficient_kind"] += 1
                if rect and deficient and prod(sh) >= 2048:
                    c["large:ge_2048_and_rectangular_and_rank_deficient"] += 1
                c["large:long_side_" + ("le_256" if max(m, n) <= 256 else "257..1536")] += 1
            if "sexp" in x:
                e = x["sexp"]
                c["scale:" + ("1e-100..1e-12" if e < -12 else "1e-12..1e-4" if e < -4 else "1e-4..1e4" if e <= 4
                              else "1e4..1e12" if e <= 12 else "1e12..1e100")] += 1
            ll = x.get("lossless") or {}
            if ll.get("default_args"):
                c["lossless:default_arguments"] += 1
            elif ll:
                c["lossless:" + ("sum_criterion" if ll.get("sum_trunc") else "value_criterion")] += 1
                if not ll.get("sum_trunc") and _dec(ll["rel_tol"]) <= 0 and _dec(ll["total_tol"]) <= 0:
                    c["lossless:cutoff_exactly_0" if 0 in (ll["rel_tol"], ll["total_tol"]) else "lossless:cutoff_-inf"] += 1
                if ll.get("renorm"):
                    c["lossless:renorm"] += 1
                if isinstance(ll["max_bond_dim"], int) and ll["max_bond_dim"] <= 400:
                    c["lossless:finite_bond_cap_le_400"] += 1
        return dict(c)

    # ---------------------------------------------------------------------------------
    def _impl_one(self, case):
        from pytreenet.util import tensor_util as tu
        from pytreenet.util import tensor_splitting as ts
        shape = tuple(case["shape"])
        conv = list if case["as_list"] else tuple
        ql, rl = conv(case["ql"]), conv(case["rl"])
        ob = {}
        # -- index maps on the index-encoding tensor
        lay = case.get("layout", "C")
        enc = with_layout(enc_tensor(shape), lay, case["seed"])
        try:
            mat = tu.tensor_matricization(enc, tuple(case["ql"]), tuple(case["rl"]))
            ob["mat"] = [list(mat.shape), entries(mat)]
        except Exception as e:  # noqa
            ob["mat"] = None
            ob["mat_exc"] = exc_str(e)
        try:
            tr = tu.transpose_tensor_by_leg_list(enc, list(case["ql"]), list(case["rl"]))
            ob["tr"] = [list(tr.shape), entries(tr)]
        except Exception as e:  # noqa
            ob["tr"] = None
            ob["tr_exc"] = exc_str(e)
        encf = with_layout(enc_tensor(shape).astype(float), lay, case["seed"])
        # the reference copy is generated separately from the (re-laid-out) array handed to the library
        ob["t"] = make_tensor(case)
        t = with_layout(make_tensor(case), lay, case["seed"])
        ob["flags"] = [bool(t.flags.c_contiguous), bool(t.flags.f_contiguous)]
        ob["qr"] = {}
        ob["svd"] = {}
        for md in MODES:
            mode = ts.SplitMode[md]
            # kernel input on the real call path
            rec = {}
            store = []
            try:
                with spy("qr", store):
                    ts.tensor_qr_decomposition(encf, ql, rl, mode=mode)
            except Exception:  # noqa
                pass
            if store:
                rec["kin"] = [list(store[0].shape), [int(x) for x in entries(store[0])], bool(np.all(store[0] == np.round(store[0])))]
            try:
                q, r = ts.tensor_qr_decomposition(t, ql, rl, mode=mode)
                rec.update({"shapes": [list(q.shape), list(r.shape)], "Q": q, "R": r})
            except Exception as e:  # noqa
                rec["exc"] = exc_str(e)
            ob["qr"][md] = rec
            rec = {}
            store = []
            try:
                with spy("svd", store):
                    ts.tensor_svd(encf, ql, rl, mode=mode)
            except Exception:  # noqa
                pass
            if store:
                rec["kin"] = [list(store[0].shape), [int(x) for x in entries(store[0])], bool(np.all(store[0] == np.round(store[0])))]
            try:
                u, s, vh = ts.tensor_svd(t, ql, rl, mode=mode)
                rec.update({"shapes": [list(u.shape), list(s.shape), list(vh.shape)], "U": u, "S": s, "Vh": vh})
            except Exception as e:  # noqa
                rec["exc"] = exc_str(e)
            ob["svd"][md] = rec
        # -- truncated SVD and contraction modes, truncation disabled / enabled
        ob["tsvd"] = {}
        ob["contr"] = {}
        dflt = bool((case.get("lossless") or {}).get("default_args"))
        for tag in ("nt", "tr", "ll"):
            if tag == "ll":
                # nothing of weight may be discarded: tolerances 0 / -inf / defaults / tiny relative to the tensor, cap >= full bond
                par = ts.SVDParameters(**lossless_params(case))
            elif tag == "nt":
                # every other case reuses ONE parameter object with a finite integer bound for a small splitting first
                # (as TEBD/TDVP and the default arguments do): a splitting that rewrites its parameters shows up
                if sum(case["shape"]) % 2:
                    par = ts.SVDParameters(max_bond_dim=float("inf"), rel_tol=float("-inf"), total_tol=float("-inf"))
                else:
                    par = ts.SVDParameters(max_bond_dim=10 ** 6, rel_tol=float("-inf"), total_tol=float("-inf"))
                    try:
                        ts.truncated_tensor_svd(np.eye(2), (0, ), (1, ), par)
                        ts.contr_truncated_svd_splitting(np.ones((1, 1)), (0, ), (1, ), svd_params=par)
                    except Exception:  # noqa
                        pass
            else:
                par = ts.SVDParameters(**case["trunc"])
            try:
                u, s, vh = ts.truncated_tensor_svd(t, ql, rl, par)
                ob["tsvd"][tag] = {"shapes": [list(u.shape), list(np.shape(s)), list(vh.shape)], "U": u, "S": np.asarray(s), "Vh": vh}
            except Exception as e:  # noqa
                ob["tsvd"][tag] = {"exc": exc_str(e)}
            for cm in CMODES:
                try:
                    if tag == "ll" and dflt:
                        # the default arguments of the public entry point (shared default parameter object, default mode VCONTR)
                        if cm == "VCONTR":
                            a, b = ts.contr_truncated_svd_splitting(t, ql, rl)
                        else:
                            a, b = ts.contr_truncated_svd_splitting(t, ql, rl, ts.ContractionMode[cm])
                    else:
                        a, b = ts.contr_truncated_svd_splitting(t, ql, rl, contr_mode=ts.ContractionMode[cm], svd_params=par)
                    ob["contr"][tag + cm] = {"shapes": [list(a.shape), list(b.shape)], "A": a, "B": b}
                except Exception as e:  # noqa
                    ob["contr"][tag + cm] = {"exc": exc_str(e)}
        return ob

    def _phist_impl(self, case):
        import copy
        import dataclasses
        import pickle
        from pytreenet.util import tensor_splitting as ts
        cls = param_classes().get(case["cls"])
        if cls is None:
            return {"skip": f"no class {case['cls']} in this library"}
        ob = {"steps": []}
        try:
            obj = cls(**{k: _dec(v) for k, v in case["init"].items()})
        except Exception as e:  # noqa
            ob["init_exc"] = exc_str(e)
            return ob
        fields = lambda o: {f: getattr(o, f, None) for f in PFIELDS}  # noqa
        for st in case["steps"]:
            rec = {}
            try:
                if st[0] == "set":
                    setattr(obj, st[1], _dec(st[2]))
                elif st[0] == "clone":
                    if st[1] == "copy":
                        obj = copy.copy(obj)
                    elif st[1] == "deepcopy":
                        obj = copy.deepcopy(obj)
                    elif st[1] == "pickle":
                        obj = pickle.loads(pickle.dumps(obj))
                    else:
                        obj = dataclasses.replace(obj, **{k: _dec(v) for k, v in st[2].items()})
                elif st[0] == "reject":
                    before = fields(obj)
                    try:
                        cls(**{k: _dec(v) for k, v in st[1].items()})
                        rec["accepted"] = True
                    except Exception as e:  # noqa
                        rec["rejected"] = exc_str(e)
                    rec["params_same"] = fields(obj) == before
                else:
                    u = st[1]
                    conv = list if u["as_list"] else tuple
                    ql, rl = conv(u["ql"]), conv(u["rl"])
                    t = with_layout(make_tensor(u), u.get("layout", "C"), u["seed"])
                    before = fields(obj)
                    try:
                        uu, ss, vh = ts.truncated_tensor_svd(t, ql, rl, obj)
                        a, b = ts.contr_truncated_svd_splitting(t, ql, rl, contr_mode=ts.ContractionMode[u["cm"]], svd_params=obj)
                        rec.update({"U": uu, "S": np.asarray(ss), "Vh": vh, "A": a, "B": b})
                    except Exception as e:  # noqa
                        rec["exc"] = exc_str(e)
                    rec["params_same"] = fields(obj) == before
            except Exception as e:  # noqa
                rec["exc"] = exc_str(e)
            ob["steps"].append(rec)
        return ob

    def impl(self, ctx, cases):
        out = []
        for c in cases:
            try:
                out.append(self._phist_impl(c) if c["kind"] == "phist" else self._impl_one(c))
            except Exception as e:  # noqa
                out.append({"exception": exc_str(e), "tb": traceback.format_exc()[-1500:]})
        return out

    # ---------------------------------------------------------------------------------
    @staticmethod
    def _plen(ob, tag):
        rec = ob.get("tsvd", {}).get(tag, {})
        if "shapes" in rec and rec["shapes"][1]:
            return rec["shapes"][1][0]
        return 1

    def _pvals(self, ob):
        if "exception" in ob:
            return [1]
        out = []
        for tag in ("nt", "tr", "ll"):
            p = self._plen(ob, tag)
            if p not in out:
                out.append(p)
        return out

    def model(self, ctx, cases, obs):
        # parameter-object histories are oracle only (no model for them)
        sel = [i for i, c in enumerate(cases) if c["kind"] != "phist"]
        if len(sel) != len(cases):
            sub = self.model(ctx, [cases[i] for i in sel], [obs[i] for i in sel]) if sel else []
            out = [None] * len(cases)
            for i, v in zip(sel, sub):
                out[i] = v
            return out
        if not cases:
            return []
        # NB: lib.coq_eval reads a shard's stdout only after the process has exited, so a shard must print less
        # than one pipe buffer (64 KiB): entries are compared inside Coq (cmp_enc) and shards are kept small.
        exprs = []
        for c, ob in zip(cases, obs):
            L = lambda xs: coq_list(xs, coq_nat)  # noqa
            NL = lambda xs: "(" + coq_list(xs, str) + "%N)"  # noqa
            a = f"{L(c['shape'])} {L(c['ql'])} {L(c['rl'])}"
            bad = "exception" in ob
            # the model is evaluated once per DISTINCT number of kept singular values of the three runs (nt, tr, ll)
            ps = [coq_nat(x) for x in self._pvals(ob)]
            em = [] if bad or ob["mat"] is None else ob["mat"][1]
            et = [] if bad or ob["tr"] is None else ob["tr"][1]
            qr = "[" + "; ".join(f"qr_shapes {m} {a}" for m in MODES) + "]"
            sv = "[" + "; ".join(f"svd_shapes {m} {a}" for m in MODES) + "]"
            tr = "[" + "; ".join(f"trunc_shapes {p} {a}" for p in ps) + "]"
            co = "[" + "; ".join(f"contr_shapes {cm} {p} {a}" for p in ps for cm in CMODES) + "]"
            exprs.append(f"(cmp_enc (matricize_enc {a}) {NL(em)}, cmp_enc (transpose_enc {a}) {NL(et)}, {qr}, {sv}, {tr}, {co})")
        # the model works on unary numbers: a large member costs seconds.  The shards (of 40 consecutive expressions) are
        # evaluated in parallel, so the large members are dealt round-robin over the shards, the others fill up.
        shard = 40
        nsh = max(1, -(-len(exprs) // shard))
        cap = [min(shard, len(exprs) - k * shard) for k in range(nsh)]
        bins = [[] for _ in range(nsh)]
        heavy = [i for i, c in enumerate(cases) if prod(c["shape"]) >= 500]
        light = [i for i, c in enumerate(cases) if prod(c["shape"]) < 500]
        k = 0
        for i in heavy:
            while len(bins[k % nsh]) >= cap[k % nsh]:
                k += 1
            bins[k % nsh].append(i)
            k += 1
        it = iter(light)
        for k in range(nsh):
            while len(bins[k]) < cap[k]:
                bins[k].append(next(it))
        order = [i for b in bins for i in b]
        assert sorted(order) == list(range(len(exprs)))
        vals = coq_eval(ctx, "From Coq Require Import NArith. " + IMPORTS, [exprs[i] for i in order], shard=shard, scope="nat_scope")
        out = [None] * len(exprs)
        for i, v in zip(order, vals):
            out[i] = v
        return out

    @staticmethod
    def _opt_pair(v):
        """model `option (a * b * ...)` -> list of python lists, or None."""
        v = unsome(v)
        if v is None:
            return None
        return [list(x) if isinstance(x, (list, tuple)) else x for x in v]

    def compare(self, case, ob, mo):
        if "exception" in ob:
            return f"harness-level exception in the implementation run: {ob['exception']}"
        mat, tr, qrs, svds, trs, cos = mo
        # index maps: every entry compared inside Coq; the model returns its shape and the first differing position
        for name, mv, iv in (("tensor_matricization", mat, ob["mat"]), ("transpose_tensor_by_leg_list", tr, ob["tr"])):
            mv = unsome(mv)
            if (mv is None) != (iv is None):
                return f"{name}: model {'rejects' if mv is None else 'accepts'}, implementation {'rejects' if iv is None else 'accepts'}"
            if mv is not None:
                if list(mv[0]) != iv[0]:
                    return f"{name}: shape impl {iv[0]} model {list(mv[0])}"
                if mv[1] is not None:
                    k = unsome(mv[1])
                    return f"{name}: entry #{k} (row-major) differs, impl {iv[1][k] if k < len(iv[1]) else 'missing'}"
        mmat = ob["mat"]     # tied to the model just above
        for i, md in enumerate(MODES):
            mq = self._opt_pair(qrs[i])
            rec = ob["qr"][md]
            if (mq is None) != ("exc" in rec):
                return f"QR {md}: model {'rejects' if mq is None else 'accepts'}, implementation {rec.get('exc', 'accepts')}"
            if mq is not None and mq != rec["shapes"]:
                return f"QR {md}: shapes impl {rec['shapes']} model {mq}"
            ms = self._opt_pair(svds[i])
            rec2 = ob["svd"][md]
            if (ms is None) != ("exc" in rec2):
                return f"SVD {md}: model {'rejects' if ms is None else 'accepts'}, implementation {rec2.get('exc', 'accepts')}"
            if ms is not None:
                ms = [ms[0], [ms[1]], ms[2]]
                if ms != rec2["shapes"]:
                    return f"SVD {md}: shapes impl {rec2['shapes']} model {ms}"
            # the matrix handed to the LAPACK kernel on the real call path
            for nm, rc in (("qr", rec), ("svd", rec2)):
                if mmat is None:
                    if "kin" in rc:
                        return f"{nm} {md}: kernel reached although the model rejects the leg lists"
                    continue
                if "kin" not in rc:
                    return f"{nm} {md}: kernel not reached on the index-encoding tensor"
                if not rc["kin"][2] or rc["kin"][:2] != mmat:
                    return f"{nm} {md}: matrix handed to np.linalg.{nm} differs from the (model-checked) matricisation"
        pvals = self._pvals(ob)
        for tag in ("nt", "tr", "ll"):
            j = pvals.index(self._plen(ob, tag))
            mt = self._opt_pair(trs[j])
            rec = ob["tsvd"][tag]
            if (mt is None) != ("exc" in rec):
                return f"truncated SVD ({tag}): model {'rejects' if mt is None else 'accepts'}, implementation {rec.get('exc', 'accepts')}"
            if mt is not None:
                mt = [mt[0], [mt[1]], mt[2]]
                if mt != rec["shapes"]:
                    return f"truncated SVD ({tag}): shapes impl {rec['shapes']} model {mt}"
            for i, cm in enumerate(CMODES):
                mc = self._opt_pair(cos[3 * j + i])
                rc = ob["contr"][tag + cm]
                if (mc is None) != ("exc" in rc):
                    return f"contr {cm} ({tag}): model {'rejects' if mc is None else 'accepts'}, implementation {rc.get('exc', 'accepts')}"
                if mc is not None and mc != rc["shapes"]:
                    return f"contr {cm} ({tag}): shapes impl {rc['shapes']} model {mc}"
        return None

    # ---------------------------------------------------------------------------------
    @staticmethod
    def _pdescr(case, upto):
        def one(st):
            if st[0] in ("use", "baduse"):
                u = st[1]
                return f"{'use' if st[0] == 'use' else 'rejected call'}(shape {u['shape']}, legs {u['ql']}|{u['rl']}, {u['cm']})"
            if st[0] == "set":
                return f"obj.{st[1]} = {st[2]}"
            if st[0] == "clone":
                return f"obj = {st[1]}(obj{', ' + str(st[2]) if st[2] else ''})"
            return f"{case['cls']}({st[1]}) rejected"
        return f"obj = {case['cls']}({case['init']}); " + "; ".join(one(st) for st in case["steps"][:upto + 1])

    def _oracle_phist(self, case, ob):
        if "skip" in ob:
            return None
        if "init_exc" in ob:
            return f"{case['cls']}({case['init']}) with valid values raised {ob['init_exc']}"
        vals = phist_values(case)
        for j, (st, rec, v) in enumerate(zip(case["steps"], ob["steps"], vals)):
            where = self._pdescr(case, j)
            if st[0] in ("reject", "baduse"):
                if not rec.get("params_same", True):
                    return f"{where}: the rejected call changed the caller's parameter object"
                continue
            if "exc" in rec:
                return f"{where}: raised {rec['exc']}"
            if st[0] != "use":
                continue
            w = self._oracle_puse(st[1], rec, v)
            if w:
                shown = {k: v[k] for k in PFIELDS}
                return f"{where}: with the parameter values {shown} now in the object: {w}"
        return None

    @staticmethod
    def _oracle_puse(u, rec, v):
        shape, ql, rl = u["shape"], u["ql"], u["rl"]
        t = make_tensor(u)
        dq, dr = [shape[a] for a in ql], [shape[a] for a in rl]
        m, nn = prod(dq), prod(dr)
        k = min(m, nn)
        expected = loop_transpose(t, ql + rl)
        sref = np.linalg.svd(expected.reshape(m, nn), compute_uv=False)
        scale = max(1.0, float(sref[0]))
        lo, hi = rule_counts(sref, v)
        if not rec.get("params_same", True):
            return "the call changed the caller's parameter object"
        uu, ss, vh, a, b = rec["U"], rec["S"], rec["Vh"], rec["A"], rec["B"]
        p = len(ss)
        if list(uu.shape) != dq + [p] or list(vh.shape) != [p] + dr:
            return f"truncated_tensor_svd: shapes {list(uu.shape)}, {[p]}, {list(vh.shape)}"
        for name, q in (("truncated_tensor_svd", p), ("contr_truncated_svd_splitting", a.shape[-1])):
            if not lo <= q <= hi:
                return (f"{name} keeps {q} of the {k} singular values {sref.tolist()}; the documented rule gives "
                        f"{lo if lo == hi else str(lo) + '..' + str(hi)}")
        if list(a.shape) != dq + [a.shape[-1]] or list(b.shape) != [a.shape[-1]] + dr:
            return f"contr_truncated_svd_splitting: shapes {list(a.shape)}, {list(b.shape)}"
        fac = float(np.sum(sref) / np.sum(sref[:p])) if (v["renorm"] and np.sum(sref[:p]) > 0) else 1.0
        if float(np.max(np.abs(ss - fac * sref[:p]))) > 1e-8 * scale:
            return f"returned values {ss.tolist()} are not the {'rescaled ' if v['renorm'] else ''}{p} largest singular values {sref.tolist()}"
        if not close(gram_last(uu), np.eye(p)) or not close(gram_first(vh), np.eye(p)):
            return "U / Vh are not isometries"
        prod_t = np.tensordot(uu * ss, vh, axes=(-1, 0))
        if not v["renorm"]:
            for name, pr, q in (("U S Vh", prod_t, p), ("the two contracted factors", np.tensordot(a, b, axes=(-1, 0)), a.shape[-1])):
                err = float(np.linalg.norm((pr - expected).ravel()))
                opt = float(np.sqrt(np.sum(sref[q:] ** 2)))
                if abs(err - opt) > 1e-8 * scale * math.sqrt(max(1, t.size)):
                    return (f"{name} ({q} of {k} values kept) differ from the tensor by {err:.3e}; the discarded weight is {opt:.3e}"
                            + (" (nothing may be discarded: the factors have to contract back to the tensor)" if q == k else ""))
        if a.shape[-1] == p and not close(np.tensordot(a, b, axes=(-1, 0)), prod_t, scale):
            return f"contr_truncated_svd_splitting({u['cm']}): the two factors do not contract to U S Vh"
        return None

    def oracle(self, case, ob):
        if case["kind"] == "phist":
            if "exception" in ob:
                return f"raised {ob['exception']}"
            return self._oracle_phist(case, ob)
        if "exception" in ob:
            return f"raised {ob['exception']}"
        shape = case["shape"]
        ql, rl = case["ql"], case["rl"]
        n = len(shape)
        valid = sorted(ql + rl) == list(range(n))
        if case["kind"] == "malformed" or not valid:
            # not a bipartition of the legs: every entry point must reject
            bad = []
            if ob["mat"] is not None:
                bad.append("tensor_matricization")
            if ob["tr"] is not None:
                bad.append("transpose_tensor_by_leg_list")
            bad += [f"qr {m}" for m in MODES if "exc" not in ob["qr"][m]] + [f"svd {m}" for m in MODES if "exc" not in ob["svd"][m]]
            if bad:
                return f"leg lists {ql},{rl} are not a bipartition of {n} legs but accepted by: {', '.join(bad)}"
            return None
        t = ob["t"]
        dq = [shape[a] for a in ql]
        dr = [shape[a] for a in rl]
        m, nn = prod(dq), prod(dr)
        k = min(m, nn)
        scale = float(np.max(np.abs(t))) if t.size else 1.0
        # tolerances are TOL * max(1, scale); for the badly scaled family (an overall factor 10**sexp) purely relative: TOL * scale
        rel = "sexp" in case
        cl = close_rel if rel else close
        floor = (lambda x: x) if rel else (lambda x: max(1.0, x))
        expected = loop_transpose(t, ql + rl)
        # documented matricisation: rows = kept legs in order, columns = other legs in order
        if ob["mat"] is None or ob["tr"] is None:
            return f"valid bipartition rejected: {ob.get('mat_exc') or ob.get('tr_exc')}"
        exp_enc = loop_transpose(enc_tensor(shape), ql + rl)
        if ob["tr"][0] != list(exp_enc.shape) or ob["tr"][1] != entries(exp_enc):
            return "transpose_tensor_by_leg_list: legs are not in the order first_legs ++ last_legs"
        if ob["mat"][0] != [m, nn] or ob["mat"][1] != entries(exp_enc):
            return f"tensor_matricization: not the ({m},{nn}) row-major matricisation over (q_legs, r_legs)"
        for md in MODES:
            # ---- QR
            rec = ob["qr"][md]
            if md == "KEEP" and not rl:
                pass  # outside the quantifier
            elif "exc" in rec:
                return f"QR {md} raised {rec['exc']}"
            else:
                q, r = rec["Q"], rec["R"]
                bond = {"FULL": m, "REDUCED": k, "KEEP": nn}[md]
                if list(q.shape) != dq + [bond] or list(r.shape) != [bond] + dr:
                    return f"QR {md}: shapes {list(q.shape)}, {list(r.shape)}; expected {dq + [bond]}, {[bond] + dr}"
                if not cl(np.tensordot(q, r, axes=(-1, 0)), expected, scale):
                    return f"QR {md}: Q.R does not reproduce the tensor with legs q_legs ++ r_legs"
                g = gram_last(q)
                if md == "KEEP":
                    ref = np.diag([1.0] * k + [0.0] * (bond - k))
                    if len(rl) == 1 and list(q.shape) != list(expected.shape):
                        return f"QR KEEP single leg: Q shape {list(q.shape)} != input shape {list(expected.shape)}"
                else:
                    ref = np.eye(bond)
                if not close(g, ref):
                    return f"QR {md}: Q is not a{' zero-padded partial' if md == 'KEEP' else 'n'} isometry"
            # ---- SVD
            rec = ob["svd"][md]
            if "exc" in rec:
                return f"SVD {md} raised {rec['exc']}"
            u, s, vh = rec["U"], rec["S"], rec["Vh"]
            ku, kv = (k, k) if md == "REDUCED" else (m, nn)
            if list(u.shape) != dq + [ku] or list(vh.shape) != [kv] + dr or list(s.shape) != [k]:
                return f"SVD {md}: shapes {list(u.shape)}, {list(s.shape)}, {list(vh.shape)}; expected {dq + [ku]}, {[k]}, {[kv] + dr}"
            if np.iscomplexobj(s) or np.any(s < 0) or np.any(np.diff(s) > 1e-12 * floor(scale)):
                return f"SVD {md}: singular values not real, non-negative and descending: {s.tolist()}"
            if not cl(np.tensordot(u[..., :k] * s, vh[:k], axes=(-1, 0)), expected, scale):
                return f"SVD {md}: U[..., :p] S Vh[:p] does not reproduce the tensor with legs u_legs ++ v_legs"
            if not close(gram_last(u), np.eye(ku)):
                return f"SVD {md}: U is not an isometry"
            if not close(gram_first(vh), np.eye(kv)):
                return f"SVD {md}: Vh is not an isometry"
        # ---- truncated SVD / contraction modes
        amat = expected.reshape(m, nn)
        sref = np.linalg.svd(amat, compute_uv=False)
        uref, _, vref = np.linalg.svd(amat, full_matrices=False)
        for tag in ("nt", "tr", "ll"):
            rec = ob["tsvd"][tag]
            if "exc" in rec:
                return f"truncated SVD ({tag}) raised {rec['exc']}"
            u, s, vh = rec["U"], rec["S"], rec["Vh"]
            p = len(s)
            if not (1 <= p <= k) or list(u.shape) != dq + [p] or list(vh.shape) != [p] + dr:
                return f"truncated SVD ({tag}): shapes {list(u.shape)}, {list(np.shape(s))}, {list(vh.shape)} with k={k}"
            if tag == "ll":
                # Parameters that, by the documented rule, discard at most the weight `allowed` (computed here from the
                # parameters and an own SVD; it is tiny or 0 by construction of the family): the factors must contract back
                # to the tensor up to that weight, in every contraction mode.
                par = dict(max_bond_dim=100, rel_tol=1e-15, total_tol=1e-15, renorm=False, sum_trunc=False, sum_renorm=True)
                par.update(lossless_params(case))
                fro = float(np.linalg.norm(sref))
                if par["sum_trunc"]:
                    d2 = fro if math.isinf(par["total_tol"]) else par["total_tol"] * (fro if par["sum_renorm"] else 1.0)
                else:
                    cands = [x for x in (par["rel_tol"] * sref[0], par["total_tol"]) if x == x]
                    cut = max(cands) if cands else float("-inf")
                    d2 = 0.0 if cut == float("-inf") else float(np.linalg.norm(sref[sref <= cut * (1 + 1e-6) + 1e-13 * sref[0]]))
                cap = par["max_bond_dim"]
                if cap < k:
                    d2 = math.hypot(d2, float(np.linalg.norm(sref[int(cap):])))
                allowed = 1.01 * d2 * (1 + math.sqrt(k)) if par["renorm"] else 1.01 * d2
                if p > cap:
                    return f"truncated SVD (ll): {p} singular values kept, max_bond_dim is {cap}"
                if float(np.max(np.abs(s - sref[:p]))) > TOL * floor(scale) + allowed:
                    return f"truncated SVD (ll) {lossless_params(case)}: kept values are not the {p} largest singular values"
                prod_t = np.tensordot(u * s, vh, axes=(-1, 0))
                err = float(np.max(np.abs(prod_t - expected))) if expected.size else 0.0
                if not err <= TOL * floor(scale) + allowed:
                    return (f"truncated splitting with parameters {lossless_params(case) or 'SVDParameters()'} that allow to discard at most "
                            f"the weight {allowed:.3g}: {p} of {k} singular values kept (s={sref.tolist()}), U S Vh differs from the "
                            f"tensor by {err:.3g} (largest entry {scale:.3g})")
                if not close(gram_last(u), np.eye(p)) or not close(gram_first(vh), np.eye(p)):
                    return "truncated SVD (ll): truncated U / Vh are not isometries"
                target = "done"
            elif not cl(s, sref[:p], scale):
                return f"truncated SVD ({tag}): kept values are not the {p} largest singular values"
            elif tag == "nt":
                if sref[0] > 0 and p != k:
                    return f"truncation disabled but {p} of {k} singular values kept"
                if np.iscomplexobj(s) or np.any(s < 0) or np.any(np.diff(s) > 1e-12 * floor(scale)):
                    return f"truncated SVD (nt): singular values not real, non-negative and descending: {np.asarray(s).tolist()}"
                if not close(gram_last(u), np.eye(p)):
                    return (f"truncated SVD (nt): U is not an isometry, max |U^H U - 1| = "
                            f"{float(np.max(np.abs(gram_last(u) - np.eye(p)))):.3g} ({m}x{nn} matricisation, s={sref.tolist()[:12]})")
                if not close(gram_first(vh), np.eye(p)):
                    return (f"truncated SVD (nt): Vh is not an isometry, max |Vh Vh^H - 1| = "
                            f"{float(np.max(np.abs(gram_first(vh) - np.eye(p)))):.3g} ({m}x{nn} matricisation, s={sref.tolist()[:12]})")
                target = expected
            else:
                par = case["trunc"]
                cut = max(par["rel_tol"] * sref[0], par["total_tol"])
                if not np.any((sref > cut * (1 - 1e-6)) & (sref < cut * (1 + 1e-6))):
                    want = max(1, min(int(np.sum(sref > cut)), par["max_bond_dim"]))
                    if p != want:
                        return f"truncation {par}: kept {p} singular values, documented rule gives {want} (s={sref.tolist()})"
                target = None
            prod_t = np.tensordot(u * s, vh, axes=(-1, 0))
            if tag == "ll":
                pass
            elif target is not None:
                if not cl(prod_t, target, scale):
                    return f"truncated SVD ({tag}): U S Vh does not reproduce the tensor"
            else:
                # Eckart-Young: a product of rank <= p with error sqrt(sum_{l>=p} s_l^2) is an optimal truncation
                err = float(np.linalg.norm((prod_t - expected).ravel()))
                opt = float(np.sqrt(np.sum(sref[p:] ** 2)))
                if abs(err - opt) > 1e-8 * floor(scale * math.sqrt(max(1, t.size))):
                    return f"truncated SVD (tr): error {err} of the truncated product differs from the optimal {opt} for {p} values"
                if p < k and sref[p - 1] - sref[p] > 1e-6 * floor(scale):
                    best = ((uref[:, :p] * sref[:p]) @ vref[:p]).reshape(expected.shape)
                    if not cl(prod_t, best, 10 * scale):
                        return "truncated SVD (tr): product is not the leading-p truncation"
                if not close(gram_last(u), np.eye(p)) or not close(gram_first(vh), np.eye(p)):
                    return "truncated SVD (tr): truncated U / Vh are not isometries"
            for cm in CMODES:
                rc = ob["contr"][tag + cm]
                if "exc" in rc:
                    return f"contr {cm} ({tag}) raised {rc['exc']}"
                a, b = rc["A"], rc["B"]
                if list(a.shape) != dq + [p] or list(b.shape) != [p] + dr:
                    return f"contr {cm} ({tag}): shapes {list(a.shape)}, {list(b.shape)}; expected {dq + [p]}, {[p] + dr}"
                if not cl(np.tensordot(a, b, axes=(-1, 0)), prod_t, scale):
                    return f"contr {cm} ({tag}): the two factors do not contract to the (truncated) product U S Vh"
                ga, gb = gram_last(a), gram_first(b)
                sa = {"UCONTR": np.diag(s ** 2), "VCONTR": np.eye(p), "EQUAL": np.diag(s)}[cm]
                sb = {"UCONTR": np.eye(p), "VCONTR": np.diag(s ** 2), "EQUAL": np.diag(s)}[cm]
                if rel:
                    # the Gram matrix of the factor that carries s^2 / s / nothing scales as scale^2 / scale / 1
                    s1 = scale * math.sqrt(max(1, t.size))
                    wa = {"UCONTR": s1 * s1, "VCONTR": 1.0, "EQUAL": s1}[cm]
                    wb = {"UCONTR": 1.0, "VCONTR": s1 * s1, "EQUAL": s1}[cm]
                    okg = close_rel(ga, sa, wa) and close_rel(gb, sb, wb)
                else:
                    okg = close(ga, sa, scale * scale * max(1, t.size)) and close(gb, sb, scale * scale * max(1, t.size))
                if not okg:
                    return f"contr {cm} ({tag}): singular values are not contracted into the documented factor"
        return None

    def classify(self, case, what, known):
        return None

    def sample_repr(self, case):
        return case
