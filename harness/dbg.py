"""developer helper: run impl/model/compare/oracle of one property without the proof step.
usage: /venv/bin/python harness/dbg.py C03 [seed] [ncases]"""
import sys, os, importlib
sys.path.insert(0, os.path.dirname(os.path.abspath(__file__)))
os.environ.setdefault("PYTHONHASHSEED", "0")
import warnings; warnings.filterwarnings("ignore")
import lib
lib.setup_repo_import()
pid = sys.argv[1]
mod = importlib.import_module(f"props.{pid.lower()}")
p = getattr(mod, pid)()
ctx = lib.Ctx(pid, os.environ.get("VERIF_TIER", "quick"), int(sys.argv[2]) if len(sys.argv) > 2 else 1)
cases = p.corpus(ctx) + p.generate(ctx, "main")
if len(sys.argv) > 3:
    cases = cases[:int(sys.argv[3])]
obs = p.impl(ctx, cases)
mos = p.model(ctx, cases, obs)
bad = 0
for c, o, m in zip(cases, obs, mos):
    if isinstance(o, lib.SkipCase):
        continue
    d = None
    if isinstance(m, BaseException):
        d = "MODEL ERR " + str(m)[:1500]
    elif m is not None:
        d = p.compare(c, o, m)
    w = p.oracle(c, o)
    if d or w:
        bad += 1
        if bad <= 4:
            print(str(c)[:600]); print(" tie:", d); print(" oracle:", w)
print("bad", bad, "of", len(cases))
print(p.distribution(cases))
print("extra obligations:", p.extra_obligations(ctx))
ctx.cleanup()
