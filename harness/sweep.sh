#!/bin/bash
# seeds sweep of the quick tier of every check (run from /verif or a snapshot of it)
cd "$(dirname "$0")/.."
( cd coq && /venv/bin/python ../harness/setup_coq.py | tail -1 )
for s in ${SEEDS:-2 3 4 5}; do
  for p in C01 C02 C03 C04 C05 C06 C07 C08 C09 C10 C11 C12 C13 C14 C15 C16 C17 C18 C19 C20; do
    out=$(/venv/bin/python harness/check.py $p --tier ${TIER:-quick} --seed $s 2>&1)
    rc=$?
    echo "seed=$s $p rc=$rc $(echo "$out" | grep -E '^\[C|^VIOLATION' | tr '\n' ' ' | cut -c1-300)"
  done
done
