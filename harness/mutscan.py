#!/venv/bin/python
"""Mechanical mutation scan (supplements the reviewer-written seeded changes of DESIGN 9.5).

For every property the anchored line ranges of properties.jsonl are parsed; single-node AST mutations
(comparison / arithmetic operator swaps, small integer constants, boolean constants, negated conditions,
swapped subscripts 0/1/-1, dropped expression statements) are applied one at a time as a minimal textual
replacement in a scratch worktree of /repo.  A mutant is only of interest if the library's own suite still
passes with it ("survivor"); the quick check of the property is then run with VERIF_REPO pointing at the
mutated tree.  Result lines (JSON) say for every survivor whether the check reported a VIOLATION (and whether
with a failing input).  Undetected survivors are either equivalent mutants or holes - to be triaged by hand.

usage: mutscan.py <out.jsonl> [--props C01,C02] [--per-prop 12] [--seed 1] [--worker i/n]
"""
import ast
import json
import os
import random
import re
import subprocess
import sys
import time

ROOT = os.path.dirname(os.path.dirname(os.path.abspath(__file__)))
BASE_FAIL = "tests/test_lindbladian.py::TestAgainstExact::test_random_jump_operator"


def sh(cmd, cwd=None, env=None, timeout=3000):
    try:
        p = subprocess.run(cmd, cwd=cwd, env=env, shell=isinstance(cmd, str), capture_output=True, text=True, timeout=timeout)
        return p.returncode, p.stdout + p.stderr
    except subprocess.TimeoutExpired:
        return 124, "timeout"


def ranges_of(prop):
    out = {}
    a = prop["anchors"]
    last_dir = None
    for m in a.get("mechanism", []) + a.get("state", []):
        for part in re.split(r"[;,]\s*", m["where"]):
            part = part.strip()
            mm = re.match(r"([\w/\.]+\.py)(?::(\d+)-(\d+))?$", part)
            if mm:
                f = mm.group(1)
                if "/" not in f and last_dir:
                    f = last_dir + "/" + f
                last_dir = os.path.dirname(f)
                lo, hi = (int(mm.group(2)), int(mm.group(3))) if mm.group(2) else (1, 10 ** 6)
                out.setdefault(f, []).append((lo, hi))
            else:
                mm = re.match(r"(\d+)-(\d+)$", part)
                if mm and out:
                    f = list(out)[-1]
                    out[f].append((int(mm.group(1)), int(mm.group(2))))
    return out


CMP = {ast.Lt: ast.LtE, ast.LtE: ast.Lt, ast.Gt: ast.GtE, ast.GtE: ast.Gt, ast.Eq: ast.NotEq, ast.NotEq: ast.Eq,
       ast.Is: ast.IsNot, ast.IsNot: ast.Is, ast.In: ast.NotIn, ast.NotIn: ast.In}
BIN = {ast.Add: ast.Sub, ast.Sub: ast.Add, ast.Mult: ast.Add, ast.FloorDiv: ast.Mult}


def candidates(src, rngs):
    """list of (lineno, col, end_lineno, end_col, replacement text, kind)"""
    tree = ast.parse(src)
    res = []

    def inr(n):
        return any(lo - 15 <= n.lineno <= hi + 40 for lo, hi in rngs)

    import copy
    for n in ast.walk(tree):
        if not hasattr(n, "lineno") or not inr(n):
            continue
        new = None
        kind = None
        if isinstance(n, ast.Compare) and len(n.ops) == 1 and type(n.ops[0]) in CMP:
            new = copy.deepcopy(n)
            new.ops = [CMP[type(n.ops[0])]()]
            kind = "cmp"
        elif isinstance(n, ast.BinOp) and type(n.op) in BIN and not isinstance(n.left, ast.Constant) or \
                isinstance(n, ast.BinOp) and type(n.op) in BIN and isinstance(getattr(n.left, "value", None), (int, float)):
            if isinstance(getattr(n.left, "value", None), str) or isinstance(getattr(n.right, "value", None), str):
                continue
            new = copy.deepcopy(n)
            new.op = BIN[type(n.op)]()
            kind = "binop"
        elif isinstance(n, ast.Constant) and isinstance(n.value, bool):
            new = ast.Constant(value=not n.value)
            kind = "bool"
        elif isinstance(n, ast.Constant) and isinstance(n.value, int) and not isinstance(n.value, bool) and -2 <= n.value <= 3:
            new = ast.Constant(value={0: 1, 1: 0, 2: 1, 3: 2, -1: 0, -2: -1}[n.value])
            kind = "int"
        elif isinstance(n, ast.If) or isinstance(n, ast.While):
            t = n.test
            if hasattr(t, "end_col_offset"):
                res.append((t.lineno, t.col_offset, t.end_lineno, t.end_col_offset, "not (" + ast.unparse(t) + ")", "negcond"))
            continue
        elif isinstance(n, ast.Expr) and isinstance(n.value, ast.Call) and n.lineno == n.end_lineno:
            res.append((n.lineno, n.col_offset, n.end_lineno, n.end_col_offset, "pass", "dropcall"))
            continue
        elif isinstance(n, ast.Call) and len(n.args) >= 2 and not n.keywords and \
                all(isinstance(x, (ast.Name, ast.Attribute)) for x in n.args[:2]):
            new = copy.deepcopy(n)
            new.args[0], new.args[1] = new.args[1], new.args[0]
            kind = "swapargs"
        if new is not None and hasattr(n, "end_col_offset"):
            res.append((n.lineno, n.col_offset, n.end_lineno, n.end_col_offset, "(" + ast.unparse(new) + ")" if kind in ("cmp", "binop") else ast.unparse(new), kind))
    return res


def apply(src, c):
    lines = src.split("\n")
    l0, c0, l1, c1, rep, _ = c
    # col offsets are utf8 byte offsets; files are ascii-ish, treat as chars
    pre = lines[l0 - 1][:c0]
    post = lines[l1 - 1][c1:]
    return "\n".join(lines[:l0 - 1] + [pre + rep + post] + lines[l1:])


def main():
    out = sys.argv[1]
    props = None
    per = 12
    seed = 1
    wi, wn = 0, 1
    args = sys.argv[2:]
    for i, a in enumerate(args):
        if a == "--props":
            props = args[i + 1].split(",")
        if a == "--per-prop":
            per = int(args[i + 1])
        if a == "--seed":
            seed = int(args[i + 1])
        if a == "--worker":
            wi, wn = map(int, args[i + 1].split("/"))
    plist = [json.loads(l) for l in open(os.path.join(ROOT, "properties.jsonl"))]
    wt = f"/tmp/mutscan_wt_{wi}"
    sh(["git", "-C", "/repo", "worktree", "remove", "--force", wt])
    rc, o = sh(["git", "-C", "/repo", "worktree", "add", "--detach", wt])
    assert rc == 0, o
    env = dict(os.environ, PYTHONPATH=wt, PYTHONHASHSEED="0", PYTHONDONTWRITEBYTECODE="1", OMP_NUM_THREADS="1")
    try:
        jobs = []
        for p in plist:
            if props and p["id"] not in props:
                continue
            rng = random.Random(f"{seed}-{p['id']}")
            cands = []
            for f, rs in ranges_of(p).items():
                path = os.path.join(wt, f)
                if not os.path.exists(path):
                    continue
                src = open(path).read()
                for c in candidates(src, rs):
                    cands.append((f, c))
            rng.shuffle(cands)
            jobs.append((p["id"], cands))
        # round robin over properties so that partial results are spread
        done = {pid: 0 for pid, _ in jobs}
        idx = {pid: 0 for pid, _ in jobs}
        k = 0
        while any(done[pid] < per and idx[pid] < len(c) for pid, c in jobs):
            for pid, cands in jobs:
                if done[pid] >= per or idx[pid] >= len(cands):
                    continue
                f, c = cands[idx[pid]]
                idx[pid] += 1
                k += 1
                if k % wn != wi:
                    continue
                path = os.path.join(wt, f)
                src = open(path).read()
                try:
                    new = apply(src, c)
                    ast.parse(new)
                except Exception:
                    continue
                if new == src:
                    continue
                open(path, "w").write(new)
                rec = {"property": pid, "file": f, "line": c[0], "kind": c[5], "new": c[4][:120],
                       "old": src.split("\n")[c[0] - 1].strip()[:160]}
                try:
                    t = time.time()
                    rc, o = sh(f"/venv/bin/python -W ignore -m pytest -q -x -p no:cacheprovider --timeout=300 -n 6 --deselect {BASE_FAIL} tests 2>&1 | tail -3",
                               cwd=wt, env=env, timeout=900)
                    rec["suite_s"] = round(time.time() - t)
                    survived = (" passed" in o) and ("failed" not in o) and ("error" not in o.lower())
                    rec["survivor"] = survived
                    if survived:
                        rc, diff = sh(["git", "-C", wt, "diff"])
                        rec["diff"] = diff
                        env2 = dict(os.environ, VERIF_REPO=wt, VERIF_EVIDENCE_DIR=f"/tmp/mutscan_ev_{wi}", OMP_NUM_THREADS="1")
                        t = time.time()
                        rc, o = sh(["/venv/bin/python", os.path.join(ROOT, "harness", "check.py"), pid, "--tier", "quick"], cwd=ROOT, env=env2, timeout=1500)
                        rec["check_rc"] = rc
                        rec["check_s"] = round(time.time() - t)
                        lines = [l[:300] for l in o.splitlines() if l.startswith("VIOLATION") or l.startswith("[" + pid)]
                        rec["lines"] = lines
                        rec["detected"] = any(l.startswith("VIOLATION") for l in lines)
                        rec["with_input"] = any(l.startswith("VIOLATION") and "no-failing-input-found" not in l for l in lines)
                        done[pid] += 1
                    with open(out, "a") as fh:
                        fh.write(json.dumps(rec) + "\n")
                finally:
                    sh(["git", "-C", wt, "checkout", "--", "."])
    finally:
        sh(["git", "-C", "/repo", "worktree", "remove", "--force", wt])
        sh(["rm", "-rf", f"/tmp/mutscan_ev_{wi}"])


if __name__ == "__main__":
    main()
