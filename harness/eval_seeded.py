#!/venv/bin/python
"""Evaluate a seeded change against the checks.
usage: eval_seeded.py <property> <dir with patch.diff demo.py notes.md> <name> [--checks C02,C03] [--no-suite]
Creates a scratch worktree of /repo under /tmp, confirms the demonstration passes without and fails
with the change, that the existing test suite still passes with the change, runs the named checks
(quick tier) with VERIF_REPO pointing at the changed tree, and writes /verif/seeded/<name>/
(patch.diff, demo.py, notes.md, meta.json). The worktree is removed afterwards."""
import json
import os
import shutil
import subprocess
import sys
import time

ROOT = os.path.dirname(os.path.dirname(os.path.abspath(__file__)))


def sh(cmd, cwd=None, env=None, timeout=3600):
    p = subprocess.run(cmd, cwd=cwd, env=env, shell=isinstance(cmd, str), capture_output=True, text=True, timeout=timeout)
    return p.returncode, p.stdout + p.stderr


def main():
    prop, src, name = sys.argv[1:4]
    checks = [prop]
    suite = True
    for a in sys.argv[4:]:
        if a.startswith("--checks"):
            checks = a.split("=", 1)[1].split(",")
        if a == "--no-suite":
            suite = False
    wt = f"/tmp/seedeval_{name}"
    sh(["git", "-C", "/repo", "worktree", "remove", "--force", wt])
    rc, out = sh(["git", "-C", "/repo", "worktree", "add", "--detach", wt])
    assert rc == 0, out
    meta = {"property": prop, "name": name, "source": src, "ran": []}
    try:
        env = dict(os.environ, PYTHONPATH=wt, PYTHONHASHSEED="0", PYTHONDONTWRITEBYTECODE="1")
        demo = os.path.join(src, "demo.py")
        rc0, out0 = sh(["/venv/bin/python", "-W", "ignore", demo], cwd=src, env=env, timeout=1200)
        meta["demo_on_unchanged"] = {"rc": rc0, "tail": out0[-400:]}
        rc, out = sh(["git", "-C", wt, "apply", os.path.join(src, "patch.diff")])
        assert rc == 0, "patch does not apply: " + out
        rc1, out1 = sh(["/venv/bin/python", "-W", "ignore", demo], cwd=src, env=env, timeout=1200)
        meta["demo_on_changed"] = {"rc": rc1, "tail": out1[-600:]}
        if suite:
            t = time.time()
            rc, out = sh("/venv/bin/python -m pytest -q -p no:cacheprovider --timeout=900 -n 8 tests 2>&1 | tail -5", cwd=wt, env=env, timeout=3000)
            meta["suite_on_changed"] = {"tail": out[-500:], "wall_s": round(time.time() - t)}
            import re
            m = re.search(r"(\d+) failed", out)
            meta["suite_failed"] = int(m.group(1)) if m else 0
            meta["suite_only_baseline_failure"] = ("test_random_jump_operator" in out and meta["suite_failed"] == 1) or meta["suite_failed"] == 0
        results = {}
        for c in checks:
            env2 = dict(os.environ, VERIF_REPO=wt, VERIF_EVIDENCE_DIR="/tmp/seedeval_evidence")
            t = time.time()
            rc, out = sh(["/venv/bin/python", os.path.join(ROOT, "harness", "check.py"), c, "--tier", "quick"], cwd=ROOT, env=env2, timeout=3000)
            lines = [l for l in out.splitlines() if l.startswith("VIOLATION") or l.startswith("KNOWN-FINDING") or l.startswith("[" + c)]
            results[c] = {"rc": rc, "lines": [l[:400] for l in lines], "wall_s": round(time.time() - t)}
            meta["ran"].append(f"VERIF_REPO={wt} /venv/bin/python harness/check.py {c} --tier quick")
        meta["checks"] = results
        meta["detected_by"] = [c for c, r in results.items() if r["rc"] != 0]
        meta["valid_seed"] = bool(rc0 == 0 and rc1 != 0 and (not suite or meta["suite_only_baseline_failure"]))
    finally:
        sh(["git", "-C", "/repo", "worktree", "remove", "--force", wt])
        shutil.rmtree(wt, ignore_errors=True)
    dst = os.path.join(ROOT, "seeded", name)
    os.makedirs(dst, exist_ok=True)
    for f in ("patch.diff", "demo.py", "notes.md"):
        if os.path.exists(os.path.join(src, f)):
            shutil.copy(os.path.join(src, f), os.path.join(dst, f))
    notes = os.path.join(src, "notes.md")
    meta["needs_to_manifest"] = open(notes).read()[:1500] if os.path.exists(notes) else ""
    json.dump(meta, open(os.path.join(dst, "meta.json"), "w"), indent=1)
    print(json.dumps({k: meta[k] for k in ("valid_seed", "detected_by", "demo_on_unchanged", "demo_on_changed")}, indent=1)[:1500])
    for c, r in meta.get("checks", {}).items():
        print(c, r["rc"], r["lines"][-2:])


if __name__ == "__main__":
    main()
