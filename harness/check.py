#!/venv/bin/python
"""CLI: /venv/bin/python harness/check.py <Cxx> [--tier quick|thorough] [--seed N] [--replay file]"""
import importlib
import os
import sys

sys.path.insert(0, os.path.dirname(os.path.abspath(__file__)))
os.environ.setdefault("PYTHONHASHSEED", "0")
if os.environ.get("PYTHONHASHSEED") != "0" or os.environ.get("_VERIF_REEXEC") != "1":
    # hash order of frozensets is observable in the library (BUG sibling order): pin it
    env = dict(os.environ, PYTHONHASHSEED="0", _VERIF_REEXEC="1", PYTHONDONTWRITEBYTECODE="1", PYTREENET_VERIF="1",
               OMP_NUM_THREADS="1", OPENBLAS_NUM_THREADS="1", MKL_NUM_THREADS="1")
    os.execve(sys.executable, [sys.executable, "-W", "ignore"] + sys.argv, env)

import lib  # noqa: E402


class _Lazy(dict):
    def __missing__(self, key):
        mod = importlib.import_module(f"props.{key.lower()}")
        return getattr(mod, key)


if __name__ == "__main__":
    lib.main(_Lazy())
