#!/venv/bin/python
"""Regenerates /verif/MANIFEST.json from the table below (kept valid at all times)."""
import json
import os
import sys

ROOT = os.path.dirname(os.path.dirname(os.path.abspath(__file__)))
sys.path.insert(0, os.path.join(ROOT, "harness"))

# property id -> (technique, level text, level note)   -- only properties whose check exists
CHECKS = {}


def register(pid, technique, text, note, design_ref=None):
    CHECKS[pid] = dict(technique=technique, text=text, note=note, design_ref=design_ref or f"DESIGN.md section 5 / {pid}")


import glob
for frag in sorted(glob.glob(os.path.join(ROOT, "harness", "manifest.d", "C*.py"))):
    exec(open(frag).read())

NOT_YET = {}
exec(open(os.path.join(ROOT, "harness", "manifest_pending.py")).read())

props = [json.loads(l)["id"] for l in open(os.path.join(ROOT, "properties.jsonl"))]
ENABLED = set(open(os.path.join(ROOT, "harness", "manifest_enabled.txt")).read().split())
CHECKS = {k: v for k, v in CHECKS.items() if k in ENABLED}
checks = []
na = []
for pid in props:
    if pid in CHECKS:
        c = CHECKS[pid]
        checks.append({
            "property_id": pid,
            "quick_cmd": f"/venv/bin/python harness/check.py {pid} --tier quick",
            "thorough_cmd": f"/venv/bin/python harness/check.py {pid} --tier thorough",
            "evidence_file": f"/verif/evidence/{pid}.json",
            "replay_cmd_template": f"/venv/bin/python harness/check.py {pid} --replay {{path}}",
            "engine": "rocq-proof+correspondence",
            "level_claimed": {"category": "proof", "text": c["text"], "design_ref": c["design_ref"]},
            "level_note": c["note"],
            "technique": c["technique"],
        })
    else:
        na.append({"property_id": pid, "reason": NOT_YET.get(pid, "check not built yet in this round (work in progress, see DESIGN.md section 8); no claim is made")})

manifest = {
    "version": 1,
    "setup_cmd": "cd /verif/coq && /venv/bin/python ../harness/setup_coq.py",
    "hooks": {
        "guard": "PYTREENET_VERIF",
        "enable": "environment variable PYTREENET_VERIF=1 (set by harness/check.py); Python package, nothing to build; checks import /repo directly",
        "baseline_off_cmd": "cd /repo && env -u PYTREENET_VERIF /venv/bin/python -m pytest -ra -q -p no:cacheprovider --timeout=900 --continue-on-collection-errors",
        "source_commits": json.load(open(os.path.join(ROOT, "harness", "hook_commits.json"))),
        "add_only": True,
    },
    "engines": [{
        "name": "rocq-proof+correspondence",
        "path": "/verif/harness/check.py",
        "serves_properties": sorted(CHECKS),
        "kind_free_text": "Rocq (Coq 8.16.1) theorems about hand-written Gallina models (coq/theories), tied to /repo on every run by a differential correspondence check (model evaluated by vm_compute in generated case files) plus an independent property oracle used as failing-input search",
    }],
    "checks": checks,
    "not_applicable": na,
    "notes": "All checks: /venv/bin/python harness/check.py <id> [--tier quick|thorough] [--seed N]; VERIF_SEED / VERIF_TIER honoured. known_findings.json lists recorded and fixed findings.",
}
json.dump(manifest, open(os.path.join(ROOT, "MANIFEST.json"), "w"), indent=1)
print("MANIFEST.json:", len(checks), "checks,", len(na), "not claimed")
