"""Generators and independent dense references shared by the property checks.
Nothing in here calls the library's contraction code: dense references use einsum /
Kronecker products on the tensors read through the public attributes only."""
from __future__ import annotations

import copy
import itertools
import string
from fractions import Fraction

import numpy as np

from lib import setup_repo_import

setup_repo_import()

import pytreenet as ptn  # noqa: E402
from pytreenet.core.node import Node  # noqa: E402
from pytreenet.ttns.ttns import TreeTensorNetworkState as TTNS  # noqa: E402
from pytreenet.operators.hamiltonian import Hamiltonian  # noqa: E402
from pytreenet.operators.tensorproduct import TensorProduct  # noqa: E402
from pytreenet.ttno.ttno_class import TTNO  # noqa: E402


# ---- trees -----------------------------------------------------------------------------
def random_parents(rng, n):
    """parent list with parent[i] < i; node 0 is the root."""
    return [None] + [rng.randrange(0, i) for i in range(1, n)]


def all_parents(n):
    """all rooted ordered trees with n nodes as parent lists in DFS pre-order labelling
    (each ordered tree exactly once)."""
    out = []

    def rec(par, stack):
        i = len(par)
        if i == n:
            out.append(list(par))
            return
        # node i becomes a child of any node on the current right spine
        for d in range(len(stack)):
            p = stack[d]
            rec(par + [p], stack[:d + 1] + [i])
    if n >= 1:
        rec([None], [0])
    return out


def children_of(parents):
    ch = {i: [] for i in range(len(parents))}
    for i, p in enumerate(parents):
        if p is not None:
            ch[p].append(i)
    return ch


def to_rtree(parents, i=0, ch=None):
    """(id, [children]) nested tuple form used by the Coq tree models."""
    if ch is None:
        ch = children_of(parents)
    return (i, [to_rtree(parents, c, ch) for c in ch[i]])


def coq_rtree(t) -> str:
    i, cs = t
    return f"(RNode {int(i)}%nat [" + "; ".join(coq_rtree(c) for c in cs) + "])"


def ttn_to_rtree(ttn, ids=None):
    """rtree of a live TreeStructure, node identifiers mapped to ints through `ids`
    (dict identifier -> int); children in the library's own order."""
    if ids is None:
        ids = {k: i for i, k in enumerate(ttn.nodes)}

    def rec(nid):
        return (ids[nid], [rec(c) for c in ttn.nodes[nid].children])
    return rec(ttn.root_id), ids


# ---- states ----------------------------------------------------------------------------
def rand_tensor(nprs, shape, complex_=True, ints=None):
    if ints is not None:
        re = nprs.randint(-ints, ints + 1, size=shape).astype(float)
        if complex_:
            return re + 1j * nprs.randint(-ints, ints + 1, size=shape)
        return re
    if complex_:
        return nprs.standard_normal(shape) + 1j * nprs.standard_normal(shape)
    return nprs.standard_normal(shape)


def build_ttns(rng, parents, phys=None, bond=None, cls=TTNS, complex_=True, ints=None,
               nopen=None, shuffle=True, child_order_shuffle=True):
    """Build a TTNS on the tree `parents`. Node i has identifier f"n{i}".
    phys: list of physical dimensions (or None -> random 2/3); bond: fixed bond dim, a dict
    child->dim, or None -> random 1..3; nopen: list with the number of open legs per node
    (default 1). With shuffle, tensors are handed over with their legs in a random order
    and children are attached in a random order, so the lazy leg permutation is exercised."""
    n = len(parents)
    if phys is None:
        phys = [rng.choice([2, 3]) for _ in range(n)]
    if nopen is None:
        nopen = [1] * n
    ch = children_of(parents)
    bdim = {}
    for i in range(1, n):
        if isinstance(bond, dict):
            bdim[i] = bond[i]
        else:
            bdim[i] = bond if bond is not None else rng.choice([1, 2, 3])
    nprs = np.random.RandomState(rng.randrange(2 ** 31))
    ttn = cls()
    order = list(range(n))
    # attach order: a node after its parent, siblings possibly permuted
    if child_order_shuffle:
        order = [0]
        frontier = list(ch[0])
        while frontier:
            k = rng.randrange(len(frontier))
            c = frontier.pop(k)
            order.append(c)
            frontier.extend(ch[c])
    cur = {}   # node id -> logical leg labels in the node's current leg order
    for i in order:
        legs = []
        if parents[i] is not None:
            legs.append(("p", parents[i], bdim[i]))
        for c in ch[i]:
            legs.append(("c", c, bdim[c]))
        for k in range(nopen[i]):
            legs.append(("o", k, phys[i] if k == 0 else rng.choice([2, 3])))
        if shuffle:
            rng.shuffle(legs)
        t = rand_tensor(nprs, tuple(l[2] for l in legs), complex_, ints)
        node = Node(identifier=f"n{i}")
        if parents[i] is None:
            ttn.add_root(node, t)
            cur[i] = legs
        else:
            p = parents[i]
            my_leg = [k for k, l in enumerate(legs) if l[0] == "p"][0]
            pl = cur[p]
            parent_leg = [k for k, l in enumerate(pl) if l[0] == "c" and l[1] == i][0]
            nvirt = ttn.nodes[f"n{p}"].nneighbours()
            ttn.add_child_to_parent(node, t, my_leg, f"n{p}", parent_leg)
            # open_leg_to_child: the leg moves behind the existing virtual legs
            pl.insert(nvirt, pl.pop(parent_leg))
            # open_leg_to_parent: the leg moves to the front
            legs.insert(0, legs.pop(my_leg))
            cur[i] = legs
    return ttn


def dense_ttn(ttn, ids=None):
    """independent dense contraction via einsum; open legs ordered by `ids` (default: sorted
    identifiers), several open legs of one node kept in node order."""
    if ids is None:
        ids = sorted(ttn.nodes.keys())
    letters = iter(string.ascii_letters)
    bond = {}
    openl = {}
    ops = []
    subs = []
    for nid in ids:
        node = ttn.nodes[nid]
        t = ttn.tensors[nid]
        s = ""
        if not node.is_root():
            key = (node.parent, nid)
            if key not in bond:
                bond[key] = next(letters)
            s += bond[key]
        for c in node.children:
            key = (nid, c)
            if key not in bond:
                bond[key] = next(letters)
            s += bond[key]
        ol = ""
        for _ in range(node.nopen_legs()):
            ol += next(letters)
        openl[nid] = ol
        s += ol
        assert len(s) == t.ndim, (nid, s, t.shape)
        ops.append(t)
        subs.append(s)
    out = "".join(openl[nid] for nid in ids)
    return np.einsum(",".join(subs) + "->" + out, *ops)


def dense_vec(ttn, ids=None):
    return dense_ttn(ttn, ids).reshape(-1)


def dense_ttno(ttno, ids=None):
    """dense matrix of a TTNO (each node has open legs (out, in)); rows = outputs in `ids`
    order, columns = inputs in `ids` order."""
    if ids is None:
        ids = sorted(ttno.nodes.keys())
    t = dense_ttn(ttno, ids)  # axes: out0,in0,out1,in1,...
    n = len(ids)
    perm = [2 * k for k in range(n)] + [2 * k + 1 for k in range(n)]
    t = t.transpose(perm)
    d = int(np.prod(t.shape[:n]))
    return t.reshape(d, d)


def structure(ttn):
    return {i: (ttn.nodes[i].parent, list(ttn.nodes[i].children)) for i in ttn.nodes}


def structure_unordered(ttn):
    return {i: (ttn.nodes[i].parent, sorted(ttn.nodes[i].children)) for i in ttn.nodes}


# ---- Hamiltonians ----------------------------------------------------------------------
def rand_conv(nprs, dims, nlabels=3, hermitian=False, ints=None):
    conv = {}
    for d in sorted(set(dims)):
        conv[f"I{d}"] = np.eye(d)
        for l in range(nlabels):
            a = rand_tensor(nprs, (d, d), True, ints)
            if hermitian:
                a = a + a.conj().T
            conv[f"A{l}_{d}"] = a
    return conv


def rand_ham(rng, ids, dims, nterms, nlabels=3, hermitian=False, coeffs=False, distinct=True,
             max_support=None, ints=None):
    """dims: dict id -> physical dimension."""
    nprs = np.random.RandomState(rng.randrange(2 ** 31))
    conv = rand_conv(nprs, dims.values(), nlabels, hermitian, ints)
    terms = []
    cm = {"1": 1}
    seen = set()
    ms = max_support or len(ids)
    for _ in range(nterms):
        k = rng.randrange(1, min(ms, len(ids)) + 1)
        sites = rng.sample(list(ids), k)
        tp = {s: f"A{rng.randrange(nlabels)}_{dims[s]}" for s in sites}
        key = tuple(sorted(tp.items()))
        if distinct and key in seen:
            continue
        seen.add(key)
        if coeffs:
            fr = Fraction(rng.choice([1, 2, -1, 3, -2]), rng.choice([1, 2, 3]))
            g = rng.choice(["1", "g1", "g2", "g3"])
            if g != "1" and g not in cm:
                cm[g] = float(nprs.standard_normal()) if hermitian else complex(nprs.standard_normal(), nprs.standard_normal())
        else:
            fr, g = Fraction(1), "1"
        terms.append((fr, g, TensorProduct(tp)))
    return Hamiltonian(terms, conv, cm)


def dense_ham(ham, ids, dims):
    """sum_k fr_k * coeff_k * kron over ids (independent of the library's to_matrix)."""
    D = int(np.prod([dims[i] for i in ids]))
    M = np.zeros((D, D), dtype=complex)
    for fr, g, tp in ham.terms:
        m = np.ones((1, 1))
        for i in ids:
            op = ham.conversion_dictionary[tp[i]] if i in tp else np.eye(dims[i])
            m = np.kron(m, op)
        M = M + float(fr) * ham.coeffs_mapping[g] * m
    return M


def dense_tp(tp_dict, ids, dims):
    """Kronecker product of site operators (dict id -> matrix), identity elsewhere."""
    m = np.ones((1, 1))
    for i in ids:
        m = np.kron(m, tp_dict[i] if i in tp_dict else np.eye(dims[i]))
    return m


def phys_dims(ttn):
    return {i: ttn.nodes[i].open_dimension() for i in ttn.nodes}


# ---- evolution classes -----------------------------------------------------------------
EVOLUTION_KINDS = ["tdvp1", "tdvp2", "tdvp2s", "bug", "fbug", "tebd"]


def no_trunc():
    from pytreenet.util.tensor_splitting import SVDParameters
    return SVDParameters(max_bond_dim=float("inf"), rel_tol=float("-inf"), total_tol=float("-inf"))


def make_evolution(kind, ttns, ham, ttno, dt, T, ops, mode=None, svd=None, bug_kwargs=None, builder=False):
    """Construct one of the concrete TTN evolution classes on (ttns, ttno)."""
    from pytreenet.time_evolution.tdvp_algorithms import (FirstOrderOneSiteTDVP, SecondOrderOneSiteTDVP,
                                                          SecondOrderTwoSiteTDVP)
    from pytreenet.time_evolution.bug import BUG, BUGConfig
    from pytreenet.time_evolution.fixed_bug import FixedBUG, FixedBUGConfig
    from pytreenet.time_evolution.tdvp_algorithms.tdvp_algorithm import TDVPConfig
    from pytreenet.time_evolution.time_evolution import TimeEvoMode
    from pytreenet.time_evolution.tebd import TEBD
    from pytreenet.time_evolution.trotter import TrotterSplitting, TrotterStep
    if builder and kind in ("tdvp1", "tdvp2", "tdvp2s"):
        # the documented builder function with its default time-evolution configuration
        import importlib
        tdvp_builder = importlib.import_module("pytreenet.time_evolution.tdvp")  # (the attribute of that name is the function)
        cfg = tdvp_builder.TDVPConfig(order=1 if kind == "tdvp1" else 2, sites=2 if kind == "tdvp2s" else 1,
                                      svd_params=svd or no_trunc())
        return tdvp_builder.tdvp(ttns, ttno, dt, T, ops, cfg)
    mode = mode or TimeEvoMode.EXPM
    svd = svd or no_trunc()
    if kind == "tdvp1":
        return FirstOrderOneSiteTDVP(ttns, ttno, dt, T, ops, TDVPConfig(time_evo_mode=mode))
    if kind == "tdvp2":
        return SecondOrderOneSiteTDVP(ttns, ttno, dt, T, ops, TDVPConfig(time_evo_mode=mode))
    if kind == "tdvp2s":
        return SecondOrderTwoSiteTDVP(ttns, ttno, dt, T, ops, svd, TDVPConfig(time_evo_mode=mode))
    if kind == "bug":
        kw = dict(max_bond_dim=svd.max_bond_dim, rel_tol=svd.rel_tol, total_tol=svd.total_tol, time_evo_mode=mode)
        kw.update(bug_kwargs or {})
        return BUG(ttns, ttno, dt, T, ops, BUGConfig(**kw))
    if kind == "fbug":
        kw = dict(time_evo_mode=mode)
        kw.update(bug_kwargs or {})
        return FixedBUG(ttns, ttno, dt, T, ops, FixedBUGConfig(**kw))
    if kind == "tebd":
        steps = []
        for fr, g, tp in ham.terms:
            num = TensorProduct({k: ham.conversion_dictionary[v] for k, v in tp.items()})
            steps.append(TrotterStep(num, float(fr) * ham.coeffs_mapping[g]))
        return TEBD(ttns, TrotterSplitting(steps), dt, T, ops, svd)
    raise ValueError(kind)
