#!/venv/bin/python
"""Records the AST digests of /repo's library modules (harness/source_digests.json): the baseline against which
lib.source_changed_files() decides whether a check should search harder. Run after the checks were green on /repo
(e.g. after a `fix:` commit). The baseline only tunes the search effort; it never decides a verdict."""
import json
import subprocess
import sys
import os
sys.path.insert(0, os.path.dirname(os.path.abspath(__file__)))
os.environ.pop("VERIF_REPO", None)
import lib  # noqa

head = subprocess.run(["git", "-C", "/repo", "rev-parse", "HEAD"], capture_output=True, text=True).stdout.strip()
dirty = subprocess.run(["git", "-C", "/repo", "status", "--porcelain", "--", "pytreenet"], capture_output=True, text=True).stdout.strip()
d = {"repo_head": head, "working_tree_clean": not dirty, "files": lib.source_digests("/repo")}
lib.SOURCE_DIGESTS.write_text(json.dumps(d, indent=1, sort_keys=True) + "\n")
print(f"recorded {len(d['files'])} modules at {head[:7]} (clean={not dirty})")
