register("C17", "placeholder", "placeholder", "placeholder")
