register("C17",
         "Coq theorems by nested induction on a Gallina model of rooted ordered trees (Tree/RTree, Nav, UpdatePath, CachePath: literal path_from_to, "
         "distance dict order, TDVPUpdatePathFinder with its tie-breaking, the state-threading _find_caching_path) + exact differential "
         "correspondence on all rooted ordered trees up to 7 (quick) / 9 (thorough) nodes and random trees up to 40 nodes + BFS oracle; "
         "trees with many nodes (41 .. 700 quick / 1200 thorough, every size band in every run: all navigation queries on sampled pairs / centres, "
         "subtree / leaves / size / root path of every node, update path and cache keys against graph search; model tie up to 256 / 420 nodes); "
         "histories of real TDVP algorithm objects (several objects per process on trees sharing identifiers and traversal sequences, "
         "time steps / runs / resets on a reused object; states already in canonical form w.r.t. any node (any leaf, inner node, root; "
         "centre moved around) or taken over from an earlier object before the path finder / TDVP object is built): update path and environment cache keys held by the object against the model and "
         "the BFS oracle, cached blocks against a naive einsum contraction; histories of in-place edits of one state / operator pair (renames, exchanged "
         "identifiers, contract + split under other names, deepcopy) between repeated init_cache_but_one calls, same observations at every initialisation",
         "Universal theorems (every rooted ordered tree with unique identifiers): linearise (permutation, children first, root last); root paths; "
         "path_from_to is the unique simple tree path; distances from every centre equal path lengths; subtree/leaves/size queries; the TDVP update "
         "path is a permutation of the nodes, starts at the first deepest leaf and ends at a node of degree <= 1; init_cache_but_one creates exactly one "
         "block per edge, directed toward the left-out node, inputs before the blocks that need them; walking the update path crosses no edge more than "
         "twice (every proper subtree is one contiguous block of the path). The model is tied to the code on every run by exact comparison "
         "of lists and dict orders.",
         "Trusted: Coq kernel, vm_compute (bounded clause and correspondence files), harness; identifiers mapped to nat; node-dictionary order is an input "
         "of get_leaves/nearest_neighbours.")
