register("C08",
         "placeholder",
         "placeholder",
         "placeholder")
