register("C19",
         "Coq theorems on Gallina models of the special-topology constructors (programs over the Layer-W store model) and of the Ising term builders + exact differential correspondence on parameter grids + independent dense einsum / Kronecker oracle",
         "placeholder",
         "placeholder")
