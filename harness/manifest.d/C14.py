register("C14", "placeholder", "placeholder", "placeholder")
