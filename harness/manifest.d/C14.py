register("C14",
         "Coq theorems on a Gallina model of BipartiteGraph / HopcroftKarp / minimum_vertex_cover (invariants of BFS layering, DFS augmentation "
         "and the Koenig exploration; fuel shown sufficient) + exact differential correspondence on all edge sets of small sides and random larger graphs "
         "+ independent brute-force matching/cover oracle",
         "Universal theorems (all sides, all edge lists accepted by the constructor, duplicates and isolated vertices included): the returned matching is a valid "
         "matching; no augmenting path remains when the outer loop stops; the two returned lists contain only existing vertices, touch every edge and have together "
         "exactly the size of the matching (the code's own assert never fails), hence the cover is minimum and the matching maximum (weak duality); the cover and "
         "range clauses hold for ANY matching handed to the Koenig construction. All recursion/loop fuel of the model is proved sufficient. The model is tied to the "
         "code by exact comparison (adjacency lists, matching incl. order, both cover lists, assert outcome, exploration visit orders) on every edge set for sides "
         "<= 3x3 (quick) / <= 4x4 (thorough), on random graphs up to 8x8 and on random graphs with a deficient matching (wide, tall and square, up to 9x13). "
         "In addition the property oracle alone (independent Kuhn matching + exact minimum cover by enumeration, no model evaluation) judges the code on every edge "
         "set of the rectangular shapes 1x4, 2x4, 3x4, 2x5 and their transposes (quick) / 2x5, 2x6, 3x5 and transposes (thorough) and on random graphs up to 14x20, "
         "and on sparse graphs with very many (almost all isolated) vertices on one side, vertex indices up to 2^17 (quick) / 2^20 (thorough), whose edge "
         "lists contain entries that would alias one another under packed, truncated or concatenated edge keys (radix 2^k, 10^k, arbitrary), "
         "and on long ladder graphs (65..900 rungs, renumbered / reordered variants) whose Koenig exploration is one serial alternating path through all "
         "matched pairs, run under the default recursion limit (reference matching by a non-recursive search).",
         "Trusted: Coq kernel, vm_compute, harness; the hand-written model corresponds to the Python code only as far as the differential runs show (not a theorem). "
         "No per-instance obligations are needed: the size equality is proved for all inputs.")
