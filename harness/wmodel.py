"""Driver for the Layer-W (symbolic tensor network) correspondence: runs operation sequences on a
real TreeTensorNetwork, records what is observable, prints the same sequence as a Coq `list op`
for TTN/Store.v and evaluates the model's diagrams numerically (einsum over the atoms)."""
from __future__ import annotations

import copy

import numpy as np

from lib import coq_nat, coq_list, coq_opt, coq_bool, setup_repo_import

setup_repo_import()
from pytreenet.core.ttn import TreeTensorNetwork  # noqa: E402
from pytreenet.core.node import Node  # noqa: E402
from pytreenet.core.leg_specification import LegSpecification  # noqa: E402
from pytreenet.util.tensor_splitting import SplitMode, SVDParameters  # noqa: E402

MODES = {"reduced": SplitMode.REDUCED, "full": SplitMode.FULL, "keep": SplitMode.KEEP}
COQ_MODE = {"reduced": "Reduced", "full": "Full", "keep": "Keep"}
IMPORTS = "From Coq Require Import List Arith. From PTN Require Import TTN.Store TTN.Canon. Import ListNotations."


class IdMap:
    def __init__(self):
        self.d = {}
        self.r = []

    def __call__(self, s):
        if s not in self.d:
            self.d[s] = len(self.r)
            self.r.append(s)
        return self.d[s]


def raw_tensor(ttn, nid):
    """the stored array without triggering TensorDict.__getitem__ (which transposes)"""
    return ttn._tensors.data[nid]


def snapshot(ttn):
    """everything observable about the structure, without side effects"""
    nodes = []
    for nid, nd in ttn.nodes.items():
        nodes.append([nid, nd.parent, list(nd.children), list(nd.leg_permutation), list(nd._shape), nd.identifier])
    return {"nodes": nodes, "tkeys": list(ttn._tensors.data.keys()), "root": ttn.root_id,
            "tshapes": {k: list(v.shape) for k, v in ttn._tensors.data.items()}}


class Driver:
    def __init__(self, ttn_cls=TreeTensorNetwork, nprs=None, ints=None, complex_=True, lowrank=0.0, share=False, ghz=False, intdtype=False,
                 mixed=False):
        self.ttn = ttn_cls()
        self.atoms = []          # atom index -> ndarray (raw value at creation)
        self.nprs = nprs or np.random.RandomState(0)
        self.ints = ints
        self.complex = complex_
        self.exact = ints is not None    # until the first kernel call
        self.log = []            # (op, ok)
        self.kernel_defects = []
        self.lowrank = lowrank
        self.share = share            # nodes with equal tensor shapes receive the SAME ndarray object
        self._shared = {}
        self.intdtype = intdtype      # with ints and complex_=False: tensors of an INTEGER numpy dtype (hand-written states)
        self.ghz = ghz                # copy tensors (delta on all legs): exactly degenerate Schmidt spectrum on every bond
        self.mixed = mixed            # MIXED data types: every tensor handed over is int64 / float64 / complex128 at random, and the
        #                               factors of an explicit replacement carry a random complex unitary gauge (A.U, U^dagger.B: same product)

    def _rand(self, shape):
        if self.ghz and len(shape) >= 1:
            t = np.zeros(shape, dtype=complex if self.complex else float)
            for i in range(min(shape)):
                t[(i,) * len(shape)] = 1.0
            return t
        if self.share:
            key = tuple(shape)
            if key not in self._shared:
                sh, self.share = self.share, False
                self._shared[key] = self._rand(shape)
                self.share = sh
            return self._shared[key]
        if self.lowrank and len(shape) >= 2 and self.nprs.rand() < self.lowrank:
            lr, self.lowrank = self.lowrank, 0.0
            vs = [self._rand((d,)) for d in shape]
            self.lowrank = lr
            x = vs[0]
            for y in vs[1:]:
                x = np.multiply.outer(x, y)
            return x
        if self.mixed:
            kind = self.nprs.randint(3)
            if self.ints is not None:
                t = self.nprs.randint(-self.ints, self.ints + 1, size=shape).astype(np.int64)
                if kind == 1:
                    t = t.astype(float)
                elif kind == 2:
                    t = t.astype(float) + 1j * self.nprs.randint(-self.ints, self.ints + 1, size=shape)
                return t
            t = self.nprs.standard_normal(shape)
            if kind == 0:
                t = np.rint(3 * t).astype(np.int64)
            elif kind == 2:
                t = t + 1j * self.nprs.standard_normal(shape)
            return t
        if self.ints is not None:
            t = self.nprs.randint(-self.ints, self.ints + 1, size=shape)
            if self.intdtype and not self.complex:
                return t.astype(np.int64)
            t = t.astype(float)
            if self.complex:
                t = t + 1j * self.nprs.randint(-self.ints, self.ints + 1, size=shape)
            return t
        t = self.nprs.standard_normal(shape)
        if self.complex:
            t = t + 1j * self.nprs.standard_normal(shape)
        return t

    @staticmethod
    def _spec(d):
        return LegSpecification(d["parent"], list(d["children"]), list(d["open"]), node=None, is_root=bool(d["root"]))

    def apply(self, op):
        """execute one op on the real network; on an exception the network is restored.
        Kernel factors (QR / SVD / explicit replacement) are recorded as atoms, in call order,
        by wrapping the splitting functions in the namespace of pytreenet.core.ttn."""
        import pytreenet.core.ttn as ttn_mod
        backup = copy.deepcopy(self.ttn)
        natoms = len(self.atoms)
        names = ["tensor_qr_decomposition", "contr_truncated_svd_splitting", "idiots_splitting"]
        orig = {nm: getattr(ttn_mod, nm) for nm in names}

        def wrap(f):
            def g(*a, **kw):
                q, r = f(*a, **kw)
                self.atoms.append(np.array(q))
                self.atoms.append(np.array(r))
                self.exact = False
                return q, r
            return g
        for nm in names:
            setattr(ttn_mod, nm, wrap(orig[nm]))
        try:
            self._apply(op)
            ok = True
            err = None
        except Exception as e:  # noqa
            self.ttn = backup
            del self.atoms[natoms:]
            ok = False
            err = f"{type(e).__name__}: {e}"
        finally:
            for nm in names:
                setattr(ttn_mod, nm, orig[nm])
        self.log.append((op, ok))
        return ok, err

    def _apply(self, op):
        k = op[0]
        t = self.ttn
        if k == "add_root":
            _, nid, shape = op
            x = self._rand(tuple(shape))
            t.add_root(Node(identifier=nid), x)
            self.atoms.append(x)
        elif k == "add_child":
            _, cid, shape, cleg, pid, pleg = op
            x = self._rand(tuple(shape))
            t.add_child_to_parent(Node(identifier=cid), x, cleg, pid, pleg)
            self.atoms.append(x)
        elif k == "contract":
            _, a, b, new = op
            if new is None:
                t.contract_nodes(a, b)
            else:
                t.contract_nodes(a, b, new_identifier=new)
        elif k == "split":
            _, n, o, i, oid, iid, kind, mode, bond = op
            before = None
            lt = None
            if n in t.nodes:
                cp = copy.deepcopy(t)
                lt = cp.tensors[n]
                if kind == 1 and not np.any(lt):
                    # an exactly ZERO tensor: the "untruncated" SVD (tolerances -inf) of the library keeps one singular value
                    # (0 * -inf = nan cutoff, C10's subject) while the store model assumes min(rows, cols); the split of a zero
                    # tensor is exercised through QR instead (the op is rewritten in place, so the model sees the same op)
                    op[6] = kind = 0
            kw = {}
            if oid is not None:
                kw_o = oid
            else:
                kw_o = ""
            kw_i = iid if iid is not None else ""
            if kind == 0:
                t.split_node_qr(n, self._spec(o), self._spec(i), q_identifier=kw_o, r_identifier=kw_i, mode=MODES[mode])
            elif kind == 1:
                t.split_node_svd(n, self._spec(o), self._spec(i), u_identifier=kw_o, v_identifier=kw_i,
                                 svd_params=SVDParameters(max_bond_dim=float("inf"), rel_tol=float("-inf"), total_tol=float("-inf")))
            else:
                # explicit replacement: factors from an independent exact rank factorisation
                cpn = cp.nodes[n]
                ol = self._legvals(cpn, o)
                il = self._legvals(cpn, i)
                mat = lt.transpose(ol + il).reshape(int(np.prod([lt.shape[x] for x in ol])), -1)
                u, s, vh = np.linalg.svd(mat, full_matrices=False)
                r = bond
                a_ = np.zeros((mat.shape[0], r), dtype=complex)
                b_ = np.zeros((r, mat.shape[1]), dtype=complex)
                m = min(r, len(s))
                a_[:, :m] = u[:, :m] * s[:m]
                b_[:m, :] = vh[:m, :]
                if self.mixed and r > 0:
                    g = self.nprs.standard_normal((r, r)) + 1j * self.nprs.standard_normal((r, r))
                    g, _ = np.linalg.qr(g)
                    a_ = a_ @ g
                    b_ = g.conj().T @ b_
                ta = a_.reshape([lt.shape[x] for x in ol] + [r])
                tb = b_.reshape([r] + [lt.shape[x] for x in il])
                oid2 = oid if oid is not None else "out_of_" + n
                iid2 = iid if iid is not None else "in_of_" + n
                t.split_node_replace(n, ta, tb, oid2, iid2, self._spec(o), self._spec(i))
        elif k == "insert_identity":
            _, c, p, new = op
            t.insert_identity(c, p, new_identifier=new)
            self.atoms.append(np.array(raw_tensor(t, new)))
        elif k == "rename":
            _, new, old = op
            t.change_node_identifier(new, old)
        elif k == "replace_tensor":
            _, n, q, p = op
            cur = copy.deepcopy(t).tensors[n]
            t.replace_tensor(n, np.array(cur.transpose(q), order="C", copy=True), permutation=p)
        elif k == "access":
            _ = t.tensors[op[1]]
        elif k == "canon":
            t.canonical_form(op[1], mode=MODES[op[2]])
        elif k == "move":
            t.move_orthogonalization_center(op[1], mode=MODES[op[2]])
        elif k == "ensure":
            t.ensure_orth_center(op[1], mode=MODES[op[2]])
        elif k == "ensure_root":
            t.ensure_root_orth_center(mode=MODES[op[2]])
        elif k == "scramble":
            shape = tuple(copy.deepcopy(t).tensors[op[1]].shape)
            x = self._rand(shape)
            t.replace_tensor(op[1], x)
            self.atoms.append(np.array(x))
        else:
            raise ValueError(k)

    @staticmethod
    def _legvals(node, d):
        out = [0] if d["parent"] is not None else []
        out += [node.neighbour_index(c) for c in d["children"]]
        out += list(d["open"])
        return out


def default_ids(op):
    """the identifiers the documentation promises when none is given"""
    if op[0] == "contract" and op[3] is None:
        return op[1] + "contr" + op[2]
    return None


def coq_spec(d, idm):
    return ("{| ls_parent := %s; ls_children := %s; ls_open := %s; ls_root := %s |}" % (
        coq_opt(None if d["parent"] is None else idm(d["parent"]), coq_nat),
        coq_list([idm(c) for c in d["children"]], coq_nat), coq_list(d["open"], coq_nat), coq_bool(d["root"])))


def coq_op(op, idm):
    k = op[0]
    if k == "add_root":
        return f"AddRoot {coq_nat(idm(op[1]))} {coq_list(op[2], coq_nat)}"
    if k == "add_child":
        return f"AddChild {coq_nat(idm(op[1]))} {coq_list(op[2], coq_nat)} {coq_nat(op[3])} {coq_nat(idm(op[4]))} {coq_nat(op[5])}"
    if k == "contract":
        new = op[3] if op[3] is not None else op[1] + "contr" + op[2]
        return f"Contract {coq_nat(idm(op[1]))} {coq_nat(idm(op[2]))} {coq_nat(idm(new))}"
    if k == "split":
        _, n, o, i, oid, iid, kind, mode, bond = op
        oid = oid if oid is not None else "out_of_" + n
        iid = iid if iid is not None else "in_of_" + n
        return (f"Split {coq_nat(idm(n))} {coq_spec(o, idm)} {coq_spec(i, idm)} {coq_nat(idm(oid))} {coq_nat(idm(iid))} "
                f"{coq_nat(kind)} {COQ_MODE[mode]} {coq_nat(bond)}")
    if k == "insert_identity":
        return f"InsertIdentity {coq_nat(idm(op[1]))} {coq_nat(idm(op[2]))} {coq_nat(idm(op[3]))}"
    if k == "rename":
        return f"Rename {coq_nat(idm(op[1]))} {coq_nat(idm(op[2]))}"
    if k == "replace_tensor":
        return f"ReplaceTensor {coq_nat(idm(op[1]))} {coq_list(op[2], coq_nat)} {coq_opt(op[3], lambda p: coq_list(p, coq_nat))}"
    if k == "access":
        return f"Access {coq_nat(idm(op[1]))}"
    raise ValueError(k)


def coq_cop(op, idm):
    if op[0] == "canon":
        return f"Canon {coq_nat(idm(op[1]))} {COQ_MODE[op[2]]}"
    if op[0] == "move":
        return f"Move {coq_nat(idm(op[1]))} {COQ_MODE[op[2]]}"
    if op[0] == "scramble":
        return f"Scramble {coq_nat(idm(op[1]))}"
    if op[0] == "ensure":
        return f"Ensure {coq_nat(idm(op[1]))} {COQ_MODE[op[2]]}"
    if op[0] == "ensure_root":
        return f"EnsureRoot {COQ_MODE[op[2]]}"
    return "Base (" + coq_op(op, idm) + ")"


def coq_crun_obs(ops, idm):
    body = coq_list([("(" + coq_cop(o, idm) + ")") for o in ops])
    rid = len(idm.r) + 1000      # temporary identifier of the R factor (a uuid in the code)
    return f"crun_obs {coq_nat(rid)} (empty_store, None) {body}"


def coq_run_obs(ops, idm):
    return "run_obs empty_store " + coq_list([("(" + coq_op(o, idm) + ")") for o in ops])


def model_obs_to_py(mo, idm):
    """parsed `observe` value -> same layout as `snapshot` (ids mapped back to strings)"""
    (nodes, tensors, root, dims, atab) = mo
    name = lambda k: idm.r[k]
    ns = []
    for (k, par, ch, perm, shape) in nodes:
        ns.append([name(k), name(par[0]) if par else None, [name(c) for c in ch], list(perm), list(shape)])
    ts = {name(k): {"axes": list(ax), "atoms": list(at), "bnd": list(bd)} for (k, ax, at, bd) in tensors}
    return {"nodes": ns, "tkeys": [name(t[0]) for t in tensors], "root": name(root[0]) if root else None,
            "tensors": ts, "dims": dict(dims), "atab": {a: list(ws) for a, ws in atab}}


def eval_diagram(diag, atab, atom_values):
    """value of a model diagram: sum over bound wires of the product of its atoms; axes in order"""
    wires = {}

    def lab(w):
        if w not in wires:
            wires[w] = len(wires)
        return wires[w]
    args = []
    for a in diag["atoms"]:
        args.append(atom_values[a])
        args.append([lab(w) for w in atab[a]])
    out = [lab(w) for w in diag["axes"]]
    if len(wires) > 52:
        raise ValueError("too many wires for einsum")
    return np.einsum(*args, out, optimize=len(diag["atoms"]) > 3)


def compare_snapshot(impl, model):
    """exact structural comparison; returns None or a message"""
    a = [n[:5] for n in impl["nodes"]]
    if a != model["nodes"]:
        for x, y in zip(a, model["nodes"]):
            if x != y:
                return f"node record differs: impl {x} model {y}"
        return f"node key order/length differs: impl {[n[0] for n in a]} model {[n[0] for n in model['nodes']]}"
    for n in impl["nodes"]:
        if n[0] != n[5]:
            return f"node stored under key {n[0]} reports identifier {n[5]}"
    if impl["tkeys"] != model["tkeys"]:
        return f"tensor key order differs: impl {impl['tkeys']} model {model['tkeys']}"
    if impl["root"] != model["root"]:
        return f"root differs: impl {impl['root']} model {model['root']}"
    for k in impl["tkeys"]:
        ms = [model["dims"][w] for w in model["tensors"][k]["axes"]]
        if impl["tshapes"][k] != ms:
            return f"raw tensor shape of {k}: impl {impl['tshapes'][k]} model {ms}"
    return None
