#!/venv/bin/python
"""Regression over the seeded changes: for every /verif/seeded/<name>/ apply patch.diff to a scratch worktree
of /repo (under /tmp, removed afterwards), run the quick check of its property (and of the other checks
listed in meta.json "detected_by") with VERIF_REPO pointing there, and report which ones raise a VIOLATION.
Evidence of these runs is redirected (VERIF_EVIDENCE_DIR) so that /verif/evidence keeps describing /repo itself.
usage: seeded_regress.py [-j N] [name ...]     (writes seeded/REGRESSION.json)"""
import concurrent.futures as cf
import glob
import json
import os
import shutil
import subprocess
import sys
import time

ROOT = os.path.dirname(os.path.dirname(os.path.abspath(__file__)))


def sh(cmd, env=None, timeout=3600):
    p = subprocess.run(cmd, env=env, capture_output=True, text=True, timeout=timeout)
    return p.returncode, p.stdout + p.stderr


def one(name):
    d = os.path.join(ROOT, "seeded", name)
    meta = json.load(open(os.path.join(d, "meta.json")))
    prop = meta["property"]
    wt = f"/tmp/seedreg_{name}"
    sh(["git", "-C", "/repo", "worktree", "remove", "--force", wt])
    shutil.rmtree(wt, ignore_errors=True)
    rc, out = sh(["git", "-C", "/repo", "worktree", "add", "--detach", wt])
    res = {"name": name, "property": prop}
    try:
        if rc != 0:
            res["error"] = out[-300:]
            return res
        rc, out = sh(["git", "-C", wt, "apply", os.path.join(d, "patch.diff")])
        if rc != 0:
            res["error"] = "patch does not apply to the current HEAD: " + out[-300:]
            return res
        checks = [prop] + [c for c in meta.get("detected_by", []) if c != prop]
        res["checks"] = {}
        for c in checks:
            env = dict(os.environ, VERIF_REPO=wt, VERIF_EVIDENCE_DIR=f"/tmp/seedreg_evidence_{name}")
            t = time.time()
            rc, out = sh(["/venv/bin/python", os.path.join(ROOT, "harness", "check.py"), c, "--tier", "quick"], env=env)
            vio = [l for l in out.splitlines() if l.startswith("VIOLATION")]
            summ = [l for l in out.splitlines() if l.startswith("[" + c)]
            res["checks"][c] = {"rc": rc, "violation": vio[0][:200] if vio else None, "summary": summ[-1][:300] if summ else out[-300:],
                                "no_failing_input": bool(vio and vio[0].rstrip().endswith("no-failing-input-found")),
                                "wall_s": round(time.time() - t)}
        res["detected_by"] = [c for c, r in res["checks"].items() if r["rc"] == 1 and r["violation"]]
    finally:
        sh(["git", "-C", "/repo", "worktree", "remove", "--force", wt])
        shutil.rmtree(wt, ignore_errors=True)
        shutil.rmtree(f"/tmp/seedreg_evidence_{name}", ignore_errors=True)
    return res


def main():
    args = sys.argv[1:]
    j = 4
    if args and args[0] == "-j":
        j = int(args[1])
        args = args[2:]
    names = args or sorted(os.path.basename(os.path.dirname(p)) for p in glob.glob(os.path.join(ROOT, "seeded", "*", "meta.json")))
    out = {}
    with cf.ThreadPoolExecutor(j) as ex:
        for r in ex.map(one, names):
            out[r["name"]] = r
            own = r.get("checks", {}).get(r["property"], {})
            print(r["name"], "detected_by=", r.get("detected_by"), "own:", "VIOLATION" if own.get("violation") else own.get("summary", r.get("error")),
                  "(no-failing-input-found)" if own.get("no_failing_input") else "", flush=True)
    path = os.path.join(ROOT, "seeded", "REGRESSION.json")
    old = json.load(open(path)) if os.path.exists(path) else {}
    old.update(out)
    json.dump(old, open(path, "w"), indent=1, sort_keys=True)
    missed = [n for n, r in out.items() if not r.get("detected_by")]
    print(f"{len(out)} seeded changes, {len(out) - len(missed)} detected; missed: {missed}")
    sys.exit(1 if missed else 0)


if __name__ == "__main__":
    main()
